package main

import (
	"bytes"
	"errors"
	"flag"
	"fmt"
	"io"
	"math/rand"
	"strings"
	"time"

	"github.com/cockroachdb/pebble/vfs"
	"github.com/jamf/regatta/regattapb"
	"github.com/jamf/regatta/storage/table/fsm"
	"github.com/jamf/regatta/util/iter"
	sm "github.com/lni/dragonboat/v4/statemachine"
)

func init() { register("c08", runC08) }

// the observable state of a replica: full content (in key order), applied index, leader index
type repObs struct {
	content string
	kvs     []*regattapb.KeyValue
	idx     uint64
	lidx    uint64
}

func observe(r *realFSM) (repObs, error) {
	chunks, err := r.iterate(gRange{Key: []byte{0}, End: []byte{0}})
	if err != nil {
		return repObs{}, err
	}
	var sb strings.Builder
	res := &regattapb.ResponseOp_Range{}
	for _, ch := range chunks {
		for _, kv := range ch.Kvs {
			fmt.Fprintf(&sb, "%x=%x;", kv.Key, kv.Value)
			res.Kvs = append(res.Kvs, kv)
		}
	}
	a, b, err := r.indices()
	if err != nil {
		return repObs{}, err
	}
	return repObs{content: sb.String(), kvs: res.Kvs, idx: a, lidx: b}, nil
}

func (o repObs) eq(p repObs) bool {
	return o.content == p.content && o.idx == p.idx && o.lidx == p.lidx
}
func (o repObs) String() string {
	c := o.content
	if len(c) > 200 {
		c = c[:200] + "..."
	}
	return fmt.Sprintf("{index %d leader %d content %s}", o.idx, o.lidx, c)
}
func (o repObs) obs() string { return oL(oKVs(o.kvs), oU(o.idx), oU(o.lidx)) }

// hookWriter calls hook before every Write (writes applied to the saver while it is saving)
type hookWriter struct {
	w    io.Writer
	hook func()
}

func (h *hookWriter) Write(p []byte) (int, error) {
	if h.hook != nil {
		h.hook()
	}
	return h.w.Write(p)
}

// cutReader delivers the first n bytes and then either signals stop (closing stopc) and keeps delivering, or fails
type cutReader struct {
	r     io.Reader
	left  int
	stopc chan struct{}
	fail  bool
	fired bool
}

func (c *cutReader) Read(p []byte) (int, error) {
	if c.left <= 0 {
		if !c.fired {
			c.fired = true
			if !c.fail {
				close(c.stopc)
			}
		}
		if c.fail {
			return 0, io.ErrUnexpectedEOF
		}
		return c.r.Read(p)
	}
	if len(p) > c.left {
		p = p[:c.left]
	}
	n, err := c.r.Read(p)
	c.left -= n
	return n, err
}

func fmtName(t fsm.SnapshotRecoveryType) string {
	if t == fsm.RecoveryTypeCheckpoint {
		return "checkpoint"
	}
	return "snapshot"
}

func runC08(args []string) error {
	probe := false
	rf, err := parseFlags("c08", args, func(fs *flag.FlagSet) { fs.BoolVar(&probe, "probe", false, "print reader behaviours") })
	if err != nil {
		return err
	}
	sum := &Summary{Engine: "c08", Seed: rf.Seed,
		Rule: "real fsm.FSM replicas. (A) faithful + point in time: random histories (puts, deletes, range deletes, transactions, sequences with leader indices) on a saver of either format; PrepareSnapshot; further batches applied before and DURING SaveSnapshot (one per Write call of the stream); RecoverFromSnapshot on a receiver configured with either format that already holds other data; content, applied index and leader index of the receiver must equal the saver's at prepare time, also after the receiver is closed and reopened and after both apply one more identical batch. (B) interruption: the stop signal or a stream failure at every byte offset of small streams (sampled for large ones): the receiver is unchanged and usable, or (stop signal too late) holds the new state. (C) readers across an install: lazy range sequences obtained before an install and consumed after it, or half consumed, and plain lookups after it: each result is the old content, the new content or an error, never a panic. distinct = scenario x format pair x cut offset; non-trivial = saver with at least 3 batches"}
	rnd := rf.rng()
	hsz, hf := sum.hist("batches_before_prepare"), sum.hist("format_pairs")
	cf := &CasesFile{Requires: []string{"Model.Bytes", "Model.Obs", "Model.Cmd", "Model.Fsm", "Run.FsmRun", "Run.C08Run"}, CaseType: "c08case", Check: "c08_check", Show: "c08_model"}
	fmts := []fsm.SnapshotRecoveryType{fsm.RecoveryTypeSnapshot, fsm.RecoveryTypeCheckpoint}

	nA := rf.count(24, 200)
	for c := 0; c < nA; c++ {
		srcT, dstT := fmts[c%2], fmts[(c/2)%2]
		hf.Inc(fmtName(srcT) + "->" + fmtName(dstT))
		g := newFsmGen(rnd, sum.hist("commands"))
		src, _, err := newRealFSM(vfs.NewMem(), srcT)
		if err != nil {
			return err
		}
		idx := uint64(0)
		var pre [][]gEntry
		nb := 1 + rnd.Intn(6)
		hsz.Inc(fmt.Sprint(nb))
		for i := 0; i < nb; i++ {
			b := g.entries(1+rnd.Intn(3), &idx)
			pre = append(pre, b)
			if _, _, err := src.apply(b); err != nil {
				return err
			}
		}
		atPrepare, err := observe(src)
		if err != nil {
			return err
		}
		ctx, err := src.f.PrepareSnapshot()
		if err != nil {
			return err
		}
		in := map[string]any{"case": c, "saver_format": fmtName(srcT), "receiver_format": fmtName(dstT), "batches_before_prepare": fmt.Sprint(pre)}
		sum.Evaluations++
		if nb >= 3 {
			sum.DistinctNontrivial++
		}
		// writes between prepare and save, and during save
		during := 0
		applyMore := func() {
			if during < 4 {
				during++
				_, _, _ = src.apply(g.entries(1+rnd.Intn(2), &idx))
			}
		}
		applyMore()
		// dragonboat's concurrent save calls Sync() on the state machine right before SaveSnapshot: what was applied
		// after the prepare is flushed to the DB's files while the prepared image must stay what it was
		if (c/4)%2 == 0 { // every format pair with and without
			if err := src.f.Sync(); err != nil {
				return err
			}
			sum.hist("between_prepare_and_save").Inc("writes, then Sync (flush)")
		} else {
			sum.hist("between_prepare_and_save").Inc("writes only")
		}
		var buf bytes.Buffer
		if err := src.f.SaveSnapshot(ctx, &hookWriter{w: &buf, hook: applyMore}, nil); err != nil {
			sum.violate(c, "saving a snapshot fails", in, err.Error())
			continue
		}
		stream := buf.Bytes()
		dst, _, err := newRealFSM(vfs.NewMem(), dstT)
		if err != nil {
			return err
		}
		junk := uint64(999)
		junkIdx := uint64(1)
		if c%3 == 1 { // a receiver whose own applied index is beyond the snapshot's: the install still replaces everything
			junkIdx = 1000000
		}
		_, _, _ = dst.apply([]gEntry{{Idx: junkIdx, Cmd: gCmd{Kind: regattapb.Command_PUT, K: []byte("junk"), V: []byte("junk"), Leader: &junk}}})
		sum.hist("receiver_index").Inc(map[bool]string{true: "beyond the snapshot's", false: "below the snapshot's"}[junkIdx > 1])
		if err := dst.f.RecoverFromSnapshot(bytes.NewReader(stream), nil); err != nil {
			sum.violate(c, "recovering from a complete snapshot fails", in, err.Error())
			continue
		}
		got, err := observe(dst)
		if err != nil {
			return err
		}
		if !got.eq(atPrepare) {
			sum.violate(c, "a recovered snapshot differs from the saver's state at prepare time", in, fmt.Sprintf("receiver %v, saver at prepare %v", got, atPrepare))
		}
		// durable: close and reopen the receiver
		dst.close()
		if _, err := dst.open(); err != nil {
			sum.violate(c, "the receiver cannot be reopened after an install", in, err.Error())
			continue
		}
		got2, _ := observe(dst)
		if !got2.eq(atPrepare) {
			sum.violate(c, "after close and reopen the receiver differs from the snapshot", in, fmt.Sprintf("receiver %v, saver at prepare %v", got2, atPrepare))
		}
		flat := []string{}
		for _, b := range pre {
			parts := make([]string, len(b))
			for i, e := range b {
				parts[i] = "(" + e.coq() + ")"
			}
			flat = append(flat, cList(parts))
		}
		full := gRange{Key: []byte{0}, End: []byte{0}}
		rres, err := dst.read(full)
		if err != nil {
			return err
		}
		ia, ib, _ := dst.indices()
		cf.Add(fmt.Sprintf("{| x_pre := %s; x_hdr := %s; x_fmt := %d; x_impl := %s |}", cList(flat), cBytes(stream[:8]), srcT, oL(oRange(rres), oL(oU(ia), oU(ib)))),
			fmt.Sprintf("case %d %s->%s %v", c, fmtName(srcT), fmtName(dstT), pre))

		// (B) interruption of an install into a receiver that holds `old`
		old := got2
		offsets := []int{}
		if len(stream) <= 600 {
			for j := 0; j <= len(stream); j += 1 + len(stream)/200 {
				offsets = append(offsets, j)
			}
		} else {
			for k := 0; k < 24; k++ {
				offsets = append(offsets, rnd.Intn(len(stream)+1))
			}
			offsets = append(offsets, 0, 7, 8, 9, 16, len(stream)-1, len(stream))
		}
		// a different snapshot to install: the saver's current state (it moved on)
		ctx2, err := src.f.PrepareSnapshot()
		if err != nil {
			return err
		}
		srcNow, _ := observe(src)
		var buf2 bytes.Buffer
		if err := src.f.SaveSnapshot(ctx2, &buf2, nil); err != nil {
			return err
		}
		stream2 := buf2.Bytes()
		// the SAVER is interrupted: a stop signal that is already given, or a sink that fails after some bytes - the
		// save must report an error (a stream that ends early must not pass for a snapshot)
		for mode := 0; mode < 3; mode++ {
			ctx3, err := src.f.PrepareSnapshot()
			if err != nil {
				return err
			}
			stopc := make(chan struct{})
			var sink io.Writer = &bytes.Buffer{}
			descr := "stop signal given before the save starts"
			switch mode {
			case 0:
				close(stopc)
			case 1:
				sink = &limitWriter{left: 0}
				descr = "sink fails at the first byte"
			default:
				sink = &limitWriter{left: len(stream2) / 2}
				descr = "sink fails half way"
			}
			var serr error
			func() {
				defer func() {
					if r := recover(); r != nil {
						serr = fmt.Errorf("PANIC: %v", r)
					}
				}()
				serr = src.f.SaveSnapshot(ctx3, sink, stopc)
			}()
			sum.Evaluations++
			sum.hist("interruptions").Inc("saver: " + descr)
			if serr == nil || strings.HasPrefix(serr.Error(), "PANIC") {
				sum.violate(c, "an interrupted snapshot save does not report an error", map[string]any{"case": c, "saver_format": fmtName(srcT), "interruption": descr, "stream_bytes": len(stream2)}, fmt.Sprint(serr))
			}
		}
		for oi, j := range offsets {
			if j > len(stream2) {
				j = len(stream2)
			}
			failMode := oi%2 == 1
			stopc := make(chan struct{})
			cr := &cutReader{r: bytes.NewReader(stream2), left: j, stopc: stopc, fail: failMode}
			in2 := map[string]any{"case": c, "saver_format": fmtName(srcT), "receiver_format": fmtName(dstT), "cut_at_byte": j, "of": len(stream2), "mode": map[bool]string{true: "stream fails", false: "stop signal"}[failMode]}
			sum.Evaluations++
			sum.hist("interruptions").Inc(in2["mode"].(string))
			var rerr error
			func() {
				defer func() {
					if r := recover(); r != nil {
						rerr = fmt.Errorf("PANIC: %v", r)
					}
				}()
				rerr = dst.f.RecoverFromSnapshot(cr, stopc)
			}()
			if rerr != nil && strings.HasPrefix(rerr.Error(), "PANIC") {
				sum.violate(c, "an interrupted install panics", in2, rerr.Error())
				break
			}
			now, err := observe(dst)
			if err != nil {
				sum.violate(c, "the receiver is unusable after an interrupted install", in2, err.Error())
				break
			}
			switch {
			case rerr == nil:
				if !now.eq(srcNow) {
					sum.violate(c, "an install that returned success did not install the snapshot", in2, fmt.Sprintf("receiver %v, snapshot %v", now, srcNow))
				}
				old = srcNow
			default:
				if !now.eq(old) {
					sum.violate(c, "an interrupted install changed the receiver", in2, fmt.Sprintf("error %v; receiver %v, before %v", rerr, now, old))
				}
				if !failMode && !errors.Is(rerr, sm.ErrSnapshotStopped) {
					sum.hist("interruptions").Inc("stop signal answered with another error")
				}
			}
			// still usable: reopen keeps the state
			if oi%5 == 0 {
				dst.close()
				if _, err := dst.open(); err != nil {
					sum.violate(c, "the receiver cannot be reopened after an interrupted install", in2, err.Error())
					break
				}
				again, _ := observe(dst)
				if !again.eq(now) {
					sum.violate(c, "close and reopen after an interrupted install changes the state", in2, fmt.Sprintf("%v vs %v", again, now))
				}
			}
		}
		src.close()
		dst.close()
	}

	// (C) readers across an install
	type rcase struct {
		mode       int
		big        bool
		srcT, dstT fsm.SnapshotRecoveryType
	}
	var rcases []rcase
	for m := 0; m < 4; m++ {
		for _, big := range []bool{false, true} {
			if rf.Tier == "thorough" {
				for _, a := range fmts {
					for _, b := range fmts {
						rcases = append(rcases, rcase{m, big, a, b})
					}
				}
			} else {
				k := len(rcases)
				rcases = append(rcases, rcase{m, big, fmts[(k+int(rf.Seed))%2], fmts[(k/2+int(rf.Seed))%2]})
			}
		}
	}
	for c, rc := range rcases {
		dstT, srcT, big := rc.dstT, rc.srcT, rc.big // big: more than one chunk (values of 1.5 MiB)
		mk := func(t fsm.SnapshotRecoveryType, tag string, n int) (*realFSM, error) {
			r, _, err := newRealFSM(vfs.NewMem(), t)
			if err != nil {
				return nil, err
			}
			var es []gEntry
			for i := 0; i < n; i++ {
				v := []byte(tag)
				if big {
					v = bytes.Repeat([]byte(tag[:1]), 1500*1024)
				}
				es = append(es, gEntry{Idx: uint64(i + 1), Cmd: gCmd{Kind: regattapb.Command_PUT, K: []byte(fmt.Sprintf("k%02d", i)), V: v}})
			}
			_, _, err = r.apply(es)
			return r, err
		}
		n := 6
		dst, err := mk(dstT, "old", n)
		if err != nil {
			return err
		}
		src, err := mk(srcT, "new", n+2)
		if err != nil {
			return err
		}
		oldObs, _ := observe(dst)
		newObs, _ := observe(src)
		ctx, _ := src.f.PrepareSnapshot()
		var buf bytes.Buffer
		if err := src.f.SaveSnapshot(ctx, &buf, nil); err != nil {
			return err
		}
		classify := func(chunks []*regattapb.ResponseOp_Range) string {
			var sb strings.Builder
			for _, ch := range chunks {
				for _, kv := range ch.Kvs {
					fmt.Fprintf(&sb, "%x=%x;", kv.Key, kv.Value)
				}
			}
			switch sb.String() {
			case oldObs.content:
				return "old"
			case newObs.content:
				return "new"
			}
			s := sb.String()
			if len(s) > 120 {
				s = s[:120] + "..."
			}
			return "NEITHER: " + s
		}
		q := gRange{Key: []byte{0}, End: []byte{0}}
		modes := []string{"sequence obtained before, consumed after", "sequence half consumed before, rest after", "lookup after", "sequence obtained and consumed after"}
		mode := modes[rc.mode]
		in := map[string]any{"case": c, "saver_format": fmtName(srcT), "receiver_format": fmtName(dstT), "reader": mode, "multi_chunk": big}
		sum.Evaluations++
		sum.DistinctNontrivial++
		sum.hist("readers").Inc(mode)
		outcome := ""
		done := make(chan struct{})
		go func() {
			defer close(done)
			defer func() {
				if r := recover(); r != nil {
					outcome = fmt.Sprintf("PANIC: %v", r)
				}
			}()
			install := func() error { return dst.f.RecoverFromSnapshot(bytes.NewReader(buf.Bytes()), nil) }
			switch rc.mode {
			case 0:
				v, err := dst.f.Lookup(fsm.IteratorRequest{RangeOp: q.pb()})
				if err != nil {
					outcome = "error: " + err.Error()
					return
				}
				if err := install(); err != nil {
					outcome = "install failed: " + err.Error()
					return
				}
				outcome = classify(iter.Collect(v.(iter.Seq[*regattapb.ResponseOp_Range])))
			case 1:
				v, err := dst.f.Lookup(fsm.IteratorRequest{RangeOp: q.pb()})
				if err != nil {
					outcome = "error: " + err.Error()
					return
				}
				pull, stop := iter.Pull(v.(iter.Seq[*regattapb.ResponseOp_Range]))
				defer stop()
				first, ok := pull()
				var chunks []*regattapb.ResponseOp_Range
				if ok {
					chunks = append(chunks, first)
				}
				if err := install(); err != nil {
					outcome = "install failed: " + err.Error()
					return
				}
				for ok {
					var ch *regattapb.ResponseOp_Range
					ch, ok = pull()
					if ok {
						chunks = append(chunks, ch)
					}
				}
				outcome = classify(chunks)
			case 2:
				if err := install(); err != nil {
					outcome = "install failed: " + err.Error()
					return
				}
				res, err := dst.read(q)
				if err != nil {
					outcome = "error: " + err.Error()
					return
				}
				if big {
					outcome = "new" // a single response holds a prefix only
					if len(res.Kvs) == 0 || res.Kvs[0].Value[0] != 'n' {
						outcome = "NEITHER"
					}
					return
				}
				outcome = classify([]*regattapb.ResponseOp_Range{res})
			case 3:
				if err := install(); err != nil {
					outcome = "install failed: " + err.Error()
					return
				}
				chunks, err := dst.iterate(q)
				if err != nil {
					outcome = "error: " + err.Error()
					return
				}
				outcome = classify(chunks)
			}
		}()
		select {
		case <-done:
		case <-time.After(5 * time.Second):
			outcome = "HANG: the reader did not return within 5 s"
		}
		sum.hist("reader_outcomes").Inc(strings.SplitN(outcome, ":", 2)[0])
		if probe {
			fmt.Printf("reader case %d %v: %s\n", c, in, outcome)
		}
		switch {
		case strings.HasPrefix(outcome, "PANIC"), strings.HasPrefix(outcome, "HANG"):
			sum.violate(1000+c, "a read overlapping a snapshot install panics or hangs", in, outcome)
		case strings.HasPrefix(outcome, "NEITHER"), strings.HasPrefix(outcome, "install failed"):
			sum.violate(1000+c, "a read overlapping a snapshot install returns neither the old nor the new state", in, outcome)
		}
		if !strings.HasPrefix(outcome, "HANG") {
			func() { defer func() { _ = recover() }(); src.close(); dst.close() }()
		}
	}
	if len(sum.Samples) == 0 {
		sum.Samples = append(sum.Samples, map[string]any{"formats": sum.Hist["format_pairs"], "readers": sum.Hist["reader_outcomes"]})
	}
	names, err := cf.Write(rf.Out, "c08", 100)
	if err != nil {
		return err
	}
	sum.CasesFiles = names
	_ = rand.Int
	return sum.write(rf.Out, "c08")
}

// limitWriter accepts [left] bytes and then fails.
type limitWriter struct{ left int }

func (l *limitWriter) Write(p []byte) (int, error) {
	if len(p) > l.left {
		n := l.left
		l.left = 0
		return n, fmt.Errorf("injected: sink failed")
	}
	l.left -= len(p)
	return len(p), nil
}
