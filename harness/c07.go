package main

import (
	"bytes"
	"context"
	"flag"
	"fmt"
	"io"
	"net"
	"os"
	"time"

	pvfs "github.com/cockroachdb/pebble/vfs"
	"github.com/jamf/regatta/regattapb"
	"github.com/jamf/regatta/replication/snapshot"
	"github.com/jamf/regatta/storage/kv"
	"github.com/jamf/regatta/storage/table"
	"github.com/jamf/regatta/storage/table/fsm"
	"github.com/lni/dragonboat/v4"
	"github.com/lni/dragonboat/v4/config"
	"github.com/lni/dragonboat/v4/logger"
	"github.com/lni/vfs"
	"google.golang.org/grpc"
)

func init() { register("c07", runC07) }

func quietDragonboat() {
	for _, n := range []string{"raft", "rsm", "transport", "grpc", "dragonboat", "logdb", "raftpb", "config", "settings", "tan", "gossip", "registry"} {
		logger.GetLogger(n).SetLevel(logger.CRITICAL)
	}
}

// startNodeHost starts a single-node dragonboat NodeHost on an in-memory file system.
func startNodeHost() (*dragonboat.NodeHost, map[uint64]string, error) {
	quietDragonboat()
	l, err := net.Listen("tcp", "127.0.0.1:0")
	if err != nil {
		return nil, nil, err
	}
	addr := l.Addr().String()
	_ = l.Close()
	nhc := config.NodeHostConfig{WALDir: "wal", NodeHostDir: "dragonboat", RTTMillisecond: 1, RaftAddress: addr}
	if err := nhc.Prepare(); err != nil {
		return nil, nil, err
	}
	nhc.Expert.FS = vfs.NewMem()
	nhc.Expert.Engine.ExecShards = 1
	nhc.Expert.LogDB.Shards = 1
	nh, err := dragonboat.NewNodeHost(nhc)
	if err != nil {
		return nil, nil, err
	}
	return nh, map[uint64]string{1: addr}, nil
}

// chunkStream is an in-memory Snapshot_StreamServer; client() gives the matching Snapshot_StreamClient.
type chunkStream struct {
	grpc.ServerStream
	chunks [][]byte
}

func (c *chunkStream) Send(m *regattapb.SnapshotChunk) error {
	c.chunks = append(c.chunks, append([]byte(nil), m.Data...))
	return nil
}
func (c *chunkStream) Context() context.Context { return context.Background() }
func (c *chunkStream) client() *chunkClient     { return &chunkClient{chunks: c.chunks} }

type chunkClient struct {
	grpc.ClientStream
	chunks [][]byte
	pos    int
}

func (c *chunkClient) Recv() (*regattapb.SnapshotChunk, error) {
	m := &regattapb.SnapshotChunk{}
	if err := c.RecvMsg(m); err != nil {
		return nil, err
	}
	return m, nil
}
func (c *chunkClient) RecvMsg(m interface{}) error {
	if c.pos >= len(c.chunks) {
		return io.EOF
	}
	ch := m.(*regattapb.SnapshotChunk)
	ch.Data = append(ch.Data[:0], c.chunks[c.pos]...)
	ch.Len = uint64(len(c.chunks[c.pos]))
	c.pos++
	return nil
}
func (c *chunkClient) Context() context.Context { return context.Background() }

// smallReader hands out at most n bytes per Read (controls where snapshot.Writer cuts chunks).
type smallReader struct {
	r io.Reader
	n []int
	i int
}

func (s *smallReader) Read(p []byte) (int, error) {
	k := s.n[s.i%len(s.n)]
	s.i++
	if k > len(p) {
		k = len(p)
	}
	return s.r.Read(p[:k])
}

// captureTable writes the table stream of f (as table.Snapshot does) into a snapshot file, optionally followed by
// the DUMMY command carrying the index (SnapshotServer.Stream), ships the raw file bytes through
// snapshot.Writer -> chunks -> snapshot.Reader into a second file and returns that file positioned at 0.
func captureTable(f *realFSM, withIndex bool, chunkSizes []int, during func()) (*os.File, string, uint64, []uint64, error) {
	sf, err := snapshot.NewTemp()
	if err != nil {
		return nil, "", 0, nil, err
	}
	defer func() { _ = sf.Close(); _ = os.Remove(sf.Path()) }()
	sizes := &sizeRecorder{w: sf}
	if during != nil {
		sizes.hook = during
	}
	resp, err := f.f.Lookup(fsm.SnapshotRequest{Writer: sizes})
	if err != nil {
		return nil, "", 0, nil, err
	}
	idx := resp.(*fsm.SnapshotResponse).Index
	if withIndex {
		final, err := (&regattapb.Command{Table: []byte("t"), Type: regattapb.Command_DUMMY, LeaderIndex: &idx}).MarshalVT()
		if err != nil {
			return nil, "", 0, nil, err
		}
		if _, err := sf.Write(final); err != nil {
			return nil, "", 0, nil, err
		}
	}
	if err := sf.Sync(); err != nil {
		return nil, "", 0, nil, err
	}
	if _, err := sf.Seek(0, io.SeekStart); err != nil {
		return nil, "", 0, nil, err
	}
	st := &chunkStream{}
	if _, err := io.Copy(&snapshot.Writer{Sender: st}, &smallReader{r: sf.File, n: chunkSizes}); err != nil {
		return nil, "", 0, nil, err
	}
	df, err := snapshot.NewTemp()
	if err != nil {
		return nil, "", 0, nil, err
	}
	if _, err := io.Copy(df.File, &snapshot.Reader{Stream: st.client()}); err != nil {
		return nil, "", 0, nil, err
	}
	if err := df.Sync(); err != nil {
		return nil, "", 0, nil, err
	}
	if _, err := df.Seek(0, io.SeekStart); err != nil {
		return nil, "", 0, nil, err
	}
	return df.File, df.Path(), idx, sizes.sizes, nil
}

type sizeRecorder struct {
	w     io.Writer
	sizes []uint64
	hook  func()
}

func (s *sizeRecorder) Write(p []byte) (int, error) {
	s.sizes = append(s.sizes, uint64(len(p)))
	if s.hook != nil && len(s.sizes) == 2 {
		s.hook() // a write applied to the table while the stream is being produced
	}
	return s.w.Write(p)
}

func runC07(args []string) error {
	framingOnly := false
	rf, err := parseFlags("c07", args, func(fs *flag.FlagSet) { fs.BoolVar(&framingOnly, "framing-only", false, "only the framing cases") })
	if err != nil {
		return err
	}
	r := rf.rng()
	sum := &Summary{Engine: "c07", Seed: rf.Seed,
		Rule: "restores through the real table.Manager on a single-node dragonboat NodeHost (in-memory FS): source tables of 0-12 pairs with values from empty to 300 KiB (thorough: 2 MiB) captured by the real commandSnapshot into a real snapshot file (snappy + length frames), shipped through snapshot.Writer/Reader with chunk sizes from 1 byte to 1 MiB, with and without the final index message, while a writer modifies the source table mid-capture; MaxInMemLogSize in {0, values placing the batch threshold on every record position, default}; restore over an existing table with other content, every third one after an earlier restore of other content that broke off mid-stream; observed: full range and leader index of the restored table. Plus the operator path (real backup client, Maintenance and Cluster services over loopback gRPC, real storage.Engine): backup / change / restore of tables of 0, 5 and 3 large pairs, and tampered backup directories (swapped and emptied files that still decode) which must be refused without changing a table. Plus framing cases (message lists x chunk sizes) through real snapshot files. distinct = distinct (content, setting, chunking); non-trivial = at least 3 pairs and a threshold that cuts inside the stream"}
	var nh *dragonboat.NodeHost
	var members map[uint64]string
	if !framingOnly {
		nh, members, err = startNodeHost()
		if err != nil {
			return err
		}
		defer nh.Close()
	}
	cf := &CasesFile{Requires: []string{"Model.Bytes", "Model.Obs", "Model.Restore", "Run.C07Run"}, CaseType: "c07case", Check: "c07_check", Show: "c07_model"}
	hs := sum.hist("settings")
	ctx := context.Background()
	type plan struct {
		n        int
		valLen   []int
		maxInMem uint64
		final    bool
	}
	var plans []plan
	// records of ~ 270 bytes; thresholds (maxInMem/2) on every position of a 10-record stream
	for _, mim := range []uint64{0, 1200, 1600, 2200, 2800, 3400, 4000, 4600, 5200, 5800, 6400, 0x1000000} {
		plans = append(plans, plan{n: 10, valLen: []int{250}, maxInMem: mim, final: true})
	}
	plans = append(plans,
		plan{n: 0, valLen: []int{0}, maxInMem: 0x1000000, final: true},
		plan{n: 1, valLen: []int{0}, maxInMem: 0, final: false},
		plan{n: 5, valLen: []int{0, 1, 70000, 300000, 10}, maxInMem: 1400000, final: true},
		plan{n: 12, valLen: []int{100, 2000}, maxInMem: 9000, final: false},
	)
	nrand := 6
	if rf.Tier == "thorough" {
		nrand = 60 * rf.Scale
		plans = append(plans, plan{n: 4, valLen: []int{2 * 1024 * 1024, 1024 * 1024, 0, 2*1024*1024 - 1}, maxInMem: 0x4000000, final: true})
	}
	for i := 0; i < nrand; i++ {
		p := plan{n: r.Intn(13), final: r.Intn(3) != 0}
		mx := 0
		for j := 0; j < 3; j++ {
			v := pick(r, []int{0, 1, 50, 250, 1000, 5000})
			p.valLen = append(p.valLen, v)
			if v > mx {
				mx = v
			}
		}
		// a record larger than MaxInMemLogSize cannot be proposed at all (dragonboat rejects it, for ordinary writes
		// too), so thresholds are chosen relative to the largest record
		rec := uint64(mx + 300)
		p.maxInMem = pick(r, []uint64{0, 4 * rec, 5 * rec, 7 * rec, 12 * rec, 0x1000000})
		plans = append(plans, p)
	}
	store := &kv.MapStore{} // shared: shard ids keep increasing across managers on the one NodeHost
	if framingOnly {
		plans = nil
	}
	for c, p := range plans {
		cfg := table.Config{NodeID: 1,
			Table: table.TableConfig{HeartbeatRTT: 1, ElectionRTT: 5, FS: pvfs.NewMem(), BlockCacheSize: 1024, TableCacheSize: 1024, MaxInMemLogSize: p.maxInMem},
			Meta:  table.MetaConfig{HeartbeatRTT: 1, ElectionRTT: 5}}
		tm := table.NewManager(nh, members, store, cfg)
		tm.Start()
		name := fmt.Sprintf("t%d", c)
		// the table exists beforehand with other content: nothing of it may survive
		if _, err := tm.CreateTable(name); err != nil {
			return err
		}
		var old table.ActiveTable
		for i := 0; i < 100; i++ {
			old, err = tm.GetTable(name)
			if err == nil {
				break
			}
			time.Sleep(20 * time.Millisecond)
		}
		if err != nil {
			return err
		}
		pctx, cancel := context.WithTimeout(ctx, 20*time.Second)
		for i := 0; i < 50; i++ {
			if _, err = old.Put(pctx, &regattapb.PutRequest{Table: []byte(name), Key: []byte("zz-old"), Value: []byte("old")}); err == nil {
				break
			}
			time.Sleep(50 * time.Millisecond)
		}
		cancel()
		if err != nil {
			return fmt.Errorf("filling old table: %w", err)
		}
		// source table
		src, _, err := newRealFSM(pvfs.NewMem(), fsm.RecoveryTypeSnapshot)
		if err != nil {
			return err
		}
		var content [][2][]byte
		var es []gEntry
		for i := 0; i < p.n; i++ {
			k := []byte(fmt.Sprintf("key-%03d", i))
			if i == 0 && p.n >= 2 {
				k = []byte{0} // the smallest key there is (a NUL byte; also the conventional range start)
			}
			if p.n >= 5 && (p.maxInMem == 0 || p.maxInMem >= 9000) {
				// keys at and around the maximum key length that share their first 1019 bytes
				base := append([]byte("key-001"), bytes.Repeat([]byte{'p'}, 1012)...)
				switch i {
				case 1:
					k = base
				case 2:
					k = append(append([]byte(nil), base...), 'a')
				case 3:
					k = append(append([]byte(nil), base...), 'b', 'c', 'c', 'c', 'c')
				}
			}
			v := bytes.Repeat([]byte{byte('a' + i%26)}, p.valLen[i%len(p.valLen)])
			content = append(content, [2][]byte{k, v})
			l := uint64(100 + i)
			es = append(es, gEntry{Idx: uint64(i + 1), Cmd: gCmd{Kind: regattapb.Command_PUT, K: k, V: v, Leader: &l}})
		}
		if len(es) > 0 {
			if _, _, err := src.apply(es); err != nil {
				return err
			}
		}
		// a concurrent writer: applied after the capture started; must not show up, nor move the declared index
		during := func() {
			_, _, _ = src.apply([]gEntry{{Idx: uint64(p.n + 1), Cmd: gCmd{Kind: regattapb.Command_PUT, K: []byte("key-late"), V: []byte("late")}},
				{Idx: uint64(p.n + 2), Cmd: gCmd{Kind: regattapb.Command_DELETE, K: []byte("key-000")}}})
		}
		chunkSizes := pick(r, [][]int{{1 << 20}, {1}, {7, 1, 64}, {4096}, {100000, 3}})
		file, path, idx, sizes, err := captureTable(src, p.final, chunkSizes, during)
		src.close()
		if err != nil {
			return err
		}
		sf, err := snapshot.OpenFile(path)
		if err != nil {
			return err
		}
		_ = file.Close()
		if os.Getenv("VERIF_DEBUG") != "" {
			fmt.Fprintf(os.Stderr, "plan %d: n=%d maxInMem=%d final=%v\n", c, p.n, p.maxInMem, p.final)
		}
		interrupted := c%3 == 1 && p.n >= 3
		if interrupted {
			// an earlier attempt with OTHER content that breaks off in the middle of the stream: nothing of it may be
			// part of the table after the restore that follows
			src0, _, err := newRealFSM(pvfs.NewMem(), fsm.RecoveryTypeSnapshot)
			if err != nil {
				return err
			}
			var es0 []gEntry
			for i := 0; i < 10; i++ {
				es0 = append(es0, gEntry{Idx: uint64(i + 1), Cmd: gCmd{Kind: regattapb.Command_PUT, K: []byte(fmt.Sprintf("int-%03d", i)), V: bytes.Repeat([]byte{'i'}, 250)}})
			}
			es0 = append(es0, gEntry{Idx: 11, Cmd: gCmd{Kind: regattapb.Command_PUT, K: content[0][0], V: []byte("interrupted attempt")}})
			if _, _, err := src0.apply(es0); err != nil {
				return err
			}
			file0, path0, _, _, err := captureTable(src0, true, []int{1 << 20}, nil)
			src0.close()
			if err != nil {
				return err
			}
			sf0, err := snapshot.OpenFile(path0)
			if err != nil {
				return err
			}
			_ = file0.Close()
			done0 := make(chan error, 1)
			go func() { done0 <- tm.Restore(name, &failingReader{r: sf0, n: 9}) }()
			var err0 error
			select {
			case err0 = <-done0:
			case <-time.After(90 * time.Second):
				return fmt.Errorf("interrupted restore did not return within 90s: n=%d maxInMem=%d", p.n, p.maxInMem)
			}
			_ = sf0.Close()
			_ = os.Remove(path0)
			if err0 == nil {
				return fmt.Errorf("harness: the interrupted restore did not fail")
			}
			hs.Inc("after-interrupted-attempt")
		}
		done := make(chan error, 1)
		go func() { done <- tm.Restore(name, sf) }()
		var rerr error
		select {
		case rerr = <-done:
		case <-time.After(90 * time.Second):
			return fmt.Errorf("restore did not finish within 90s: n=%d maxInMem=%d", p.n, p.maxInMem)
		}
		_ = sf.Close()
		_ = os.Remove(path)
		if rerr != nil {
			return fmt.Errorf("restore: %w", rerr)
		}
		nt, err := tm.GetTable(name)
		if err != nil {
			return err
		}
		rctx, cancel2 := context.WithTimeout(ctx, 20*time.Second)
		// all pages of the full range (a single Range response stops at about 4 MiB)
		seq, err := nt.Iterator(rctx, &regattapb.RangeRequest{Table: []byte(name), Key: []byte{0}, RangeEnd: []byte{0}, Linearizable: true})
		if err != nil {
			cancel2()
			return err
		}
		rr := &regattapb.RangeResponse{}
		seq(func(page *regattapb.ResponseOp_Range) bool {
			rr.Kvs = append(rr.Kvs, page.Kvs...)
			rr.Count += page.Count
			return true
		})
		li, err := nt.LeaderIndex(rctx, true)
		cancel2()
		if err != nil {
			return err
		}
		tm.Close()
		// observables
		var got []string
		for _, kv := range rr.Kvs {
			got = append(got, oL(oB(kv.Key), oB(kv.Value)))
		}
		impl := oL(oLs(got), oU(li.Index))
		var cont, szs []string
		if len(sizes) < len(content) {
			// the stream has fewer records than the table has pairs: the content check below names what is missing; the
			// model is given a nominal size for the records that were never written
			for len(sizes) < len(content) {
				sizes = append(sizes, 1)
			}
			sum.violate(c, "the table stream does not carry every stored pair", map[string]any{"plan": fmt.Sprintf("n=%d valLen=%v maxInMem=%d final=%v", p.n, p.valLen, p.maxInMem, p.final)}, fmt.Sprintf("%d pairs stored when the capture started, fewer records in the stream", len(content)))
		}
		for i, kv := range content {
			cont = append(cont, "("+cBytes(kv[0])+", "+cBytes(kv[1])+")")
			szs = append(szs, cN(sizes[i]))
		}
		final := "None"
		if p.final {
			final = fmt.Sprintf("(Some %d)", idx)
		}
		d := fmt.Sprintf("n=%d valLen=%v maxInMem=%d final=%v chunks=%v", p.n, p.valLen, p.maxInMem, p.final, chunkSizes)
		if interrupted {
			d += " after an interrupted restore of other content"
		}
		cf.Add(fmt.Sprintf("{| r_content := %s; r_final := %s; r_sizes := %s; r_maxinmem := %d; r_impl := %s |}", cList(cont), final, cList(szs), p.maxInMem, impl), d)
		hs.Inc(fmt.Sprintf("maxInMem=%d", p.maxInMem))
		sum.Evaluations++
		if p.n >= 3 && p.maxInMem < 100000 {
			sum.DistinctNontrivial++
		}
		if len(sum.Samples) < 3 {
			sum.Samples = append(sum.Samples, d)
		}
		// ---- the property itself ----
		in := map[string]any{"plan": d}
		ok := len(rr.Kvs) == len(content)
		if ok {
			for i, kv := range rr.Kvs {
				if !bytes.Equal(kv.Key, content[i][0]) || !bytes.Equal(kv.Value, content[i][1]) {
					ok = false
				}
			}
		}
		if !ok {
			var keys []string
			for _, kv := range rr.Kvs {
				keys = append(keys, q(kv.Key))
			}
			sum.violate(c, "restored table content differs from the captured content", in, fmt.Sprintf("captured %d pairs, restored %d: %v", len(content), len(rr.Kvs), keys))
		}
		if p.final && li.Index != idx {
			sum.violate(c, "restored table does not record the index the stream declares", in, fmt.Sprintf("declared %d recorded %d", idx, li.Index))
		}
		if p.final && p.n > 0 && idx != uint64(p.n) {
			sum.violate(c, "the stream is not a point-in-time image (declared index moved by a concurrent write)", in, fmt.Sprint(idx))
		}
	}

	// ---- the operator path: backup client <-> Maintenance service <-> engine ----
	bg := &CasesFile{Requires: []string{"Model.Bytes", "Model.Obs", "Model.BackupGate", "Run.C07Run"}, CaseType: "bgcase", Check: "bg_check", Show: "bg_model"}
	if !framingOnly {
		if err := runC07Backup(sum, bg); err != nil {
			return err
		}
	}

	// ---- framing through real snapshot files ----
	ff := &CasesFile{Requires: []string{"Model.Bytes", "Model.Obs", "Model.Framing", "Run.C07Run"}, CaseType: "frcase", Check: "fr_check", Show: "fr_model"}
	nfr := 25
	if framingOnly {
		nfr = 120
	}
	if rf.Tier == "thorough" {
		nfr = 300 * rf.Scale
	}
	for c := 0; c < nfr; c++ {
		var msgs [][]byte
		for i := r.Intn(7); i > 0; i-- {
			l := pick(r, []int{0, 1, 2, 7, 8, 9, 255, 256, 300, 5000})
			m := make([]byte, l)
			for j := range m {
				m[j] = byte(r.Intn(256))
			}
			msgs = append(msgs, m)
		}
		sizes := pick(r, [][]int{{1}, {2, 3}, {8}, {9, 1}, {1 << 20}, {100}})
		sf, err := snapshot.NewTemp()
		if err != nil {
			return err
		}
		for _, m := range msgs {
			if _, err := sf.Write(m); err != nil {
				return err
			}
		}
		if err := sf.Sync(); err != nil {
			return err
		}
		_, _ = sf.Seek(0, io.SeekStart)
		st := &chunkStream{}
		if _, err := io.Copy(&snapshot.Writer{Sender: st}, &smallReader{r: sf.File, n: sizes}); err != nil {
			return err
		}
		_ = sf.Close()
		_ = os.Remove(sf.Path())
		df, err := snapshot.NewTemp()
		if err != nil {
			return err
		}
		if _, err := io.Copy(df.File, &snapshot.Reader{Stream: st.client()}); err != nil {
			return err
		}
		_ = df.Sync()
		_, _ = df.Seek(0, io.SeekStart)
		// the same chunk stream consumed through plain Read calls with a buffer that may be smaller than a chunk (a
		// wrapper hiding WriteTo): either every byte arrives, or the read fails loudly - never a clean end with bytes missing
		{
			var whole []byte
			for _, ch := range st.chunks {
				whole = append(whole, ch...)
			}
			for _, bufLen := range []int{len(whole), 1 << 20, 512, 7, 1} {
				if bufLen == 0 {
					continue
				}
				rd := &snapshot.Reader{Stream: st.client()}
				buf := make([]byte, bufLen)
				var got []byte
				var rerr error
				for {
					n, err := rd.Read(buf)
					got = append(got, buf[:n]...)
					if err != nil {
						if err != io.EOF {
							rerr = err
						}
						break
					}
				}
				if rerr == nil && !bytes.Equal(got, whole) {
					sum.violate(1500+c, "a chunk stream read with a small buffer ends cleanly with bytes missing", map[string]any{"chunks": fmt.Sprint(sizes), "stream_bytes": len(whole), "read_buffer": bufLen}, fmt.Sprintf("%d of %d bytes, no error", len(got), len(whole)))
					break
				}
			}
		}
		var got [][]byte
		buf := make([]byte, 1<<20)
		for {
			n, err := df.Read(buf)
			if err != nil {
				break
			}
			got = append(got, append([]byte(nil), buf[:n]...))
		}
		_ = df.Close()
		_ = os.Remove(df.Path())
		var want [][]byte
		for _, m := range msgs {
			if len(m) > 0 {
				want = append(want, m)
			}
		}
		if len(got) != len(want) {
			sum.violate(1000+c, "message sequence read back from a chunked snapshot stream differs", map[string]any{"lengths": fmt.Sprint(len(msgs)), "chunks": fmt.Sprint(sizes)}, fmt.Sprintf("%d vs %d", len(got), len(want)))
		} else {
			for i := range got {
				if !bytes.Equal(got[i], want[i]) {
					sum.violate(1000+c, "message read back from a chunked snapshot stream differs", map[string]any{"chunks": fmt.Sprint(sizes)}, fmt.Sprint(i))
					break
				}
			}
		}
		var ms, gs, ss []string
		for _, m := range msgs {
			ms = append(ms, cBytes(m))
		}
		for _, m := range got {
			gs = append(gs, oB(m))
		}
		// the model chunks the UNCOMPRESSED frame stream; chunk sizes refer to compressed bytes in the implementation.
		// The boundaries are irrelevant to both (that is the theorem); the model is given the same size list.
		for _, s := range sizes {
			ss = append(ss, fmt.Sprintf("%d%%nat", s))
		}
		ff.Add(fmt.Sprintf("{| fr_msgs := %s; fr_sizes := %s; fr_impl := %s |}", cList(ms), cList(ss), oLs(gs)), fmt.Sprintf("%d messages chunks %v", len(msgs), sizes))
		sum.Evaluations++
		if len(want) >= 2 {
			sum.DistinctNontrivial++
		}
	}
	// length prefixes placed around the block boundaries of the compressed file format (the snappy framing cuts the
	// uncompressed stream into blocks of 65528 bytes): a prefix that straddles a block is delivered by two short reads
	for _, boundary := range []int{65528, 2 * 65528} {
		for off := boundary - 12; off <= boundary+4; off++ {
			first := make([]byte, off-8-(boundary-65528)) // the second record's prefix starts at offset off
			if boundary > 65528 {
				first = make([]byte, off-8)
			}
			for j := range first {
				first[j] = byte(r.Intn(256))
			}
			msgs := [][]byte{first}
			for i := 0; i < 5; i++ {
				m := make([]byte, 90+r.Intn(30))
				for j := range m {
					m[j] = byte(r.Intn(256))
				}
				msgs = append(msgs, m)
			}
			sf, err := snapshot.NewTemp()
			if err != nil {
				return err
			}
			for _, m := range msgs {
				if _, err := sf.Write(m); err != nil {
					return err
				}
			}
			if err := sf.Sync(); err != nil {
				return err
			}
			_, _ = sf.Seek(0, io.SeekStart)
			var got [][]byte
			var rerr string
			func() {
				defer func() {
					if p := recover(); p != nil {
						rerr = fmt.Sprintf("panic: %v", p)
					}
				}()
				buf := make([]byte, 1<<20)
				for {
					n, err := sf.Read(buf)
					if err != nil {
						if err != io.EOF {
							rerr = err.Error()
						}
						break
					}
					got = append(got, append([]byte(nil), buf[:n]...))
				}
			}()
			_ = sf.Close()
			_ = os.Remove(sf.Path())
			sum.Evaluations++
			sum.hist("prefix_alignment").Inc(fmt.Sprintf("second prefix at block boundary %+d", off-boundary))
			ok := rerr == "" && len(got) == len(msgs)
			for i := 0; ok && i < len(msgs); i++ {
				ok = bytes.Equal(got[i], msgs[i])
			}
			if !ok {
				sum.violate(5000+off, "messages read back from a snapshot file differ from the messages written", map[string]any{"second_length_prefix_at_uncompressed_offset": off, "block_size": 65528, "messages": len(msgs)}, fmt.Sprintf("read %d of %d messages; %s", len(got), len(msgs), rerr))
			}
		}
	}
	// the exporter (fsm.commandSnapshot via writeCommand) marshals every command into ONE buffer it refills right after
	// Write returns: what is read back must be what the buffer held at the time of each Write
	for round := 0; round < 3; round++ {
		sizes := [][]int{{70000, 100, 66000, 65536, 200000, 5}, {65535, 65536, 65537, 131072}, {300000, 300000, 300000, 10, 300000}}[round]
		sf, err := snapshot.NewTemp()
		if err != nil {
			return err
		}
		var want [][]byte
		var shared []byte
		for i, l := range sizes {
			m := make([]byte, l)
			for j := range m {
				m[j] = byte(i*31 + j%251)
			}
			want = append(want, m)
			shared = append(shared[:0], m...)
			if _, err := sf.Write(shared); err != nil {
				return err
			}
			for j := range shared { // the next command is marshalled over it
				shared[j] = 0xEE
			}
		}
		if err := sf.Sync(); err != nil {
			return err
		}
		_, _ = sf.Seek(0, io.SeekStart)
		var got [][]byte
		rerr := ""
		buf := make([]byte, 1<<20)
		for {
			n, err := sf.Read(buf)
			if err != nil {
				if err != io.EOF {
					rerr = err.Error()
				}
				break
			}
			got = append(got, append([]byte(nil), buf[:n]...))
		}
		_ = sf.Close()
		_ = os.Remove(sf.Path())
		sum.Evaluations++
		sum.hist("prefix_alignment").Inc("large messages written from one reused buffer")
		ok := rerr == "" && len(got) == len(want)
		for i := 0; ok && i < len(want); i++ {
			ok = bytes.Equal(got[i], want[i])
		}
		if !ok {
			sum.violate(6000+round, "messages read back from a snapshot file differ from the messages written", map[string]any{"message_sizes": fmt.Sprint(sizes), "writer": "one buffer, refilled after every Write"}, fmt.Sprintf("read %d of %d messages; %s", len(got), len(want), rerr))
		}
	}
	var names []string
	if !framingOnly {
		names, err = cf.Write(rf.Out, "c07_cases", 8)
		if err != nil {
			return err
		}
	}
	if len(sum.Samples) == 0 {
		sum.Samples = append(sum.Samples, ff.Descr[0])
	}
	fnames, err := ff.Write(rf.Out, "c07_framing", 50)
	if err != nil {
		return err
	}
	sum.CasesFiles = append(names, fnames...)
	if len(bg.Descr) > 0 {
		bnames, err := bg.Write(rf.Out, "c07_gate", 50)
		if err != nil {
			return err
		}
		sum.CasesFiles = append(sum.CasesFiles, bnames...)
	}
	return sum.write(rf.Out, "c07")
}
