package main

import (
	"bytes"
	"context"
	"fmt"
	"math/rand"

	"github.com/jamf/regatta/regattapb"
	"github.com/jamf/regatta/regattaserver"
	"github.com/jamf/regatta/storage/table"
	"google.golang.org/grpc"
	"google.golang.org/protobuf/proto"
)

// collectStream records what KV.IterateRange sends.
type collectStream struct {
	grpc.ServerStream
	msgs []*regattapb.RangeResponse
}

func (s *collectStream) Send(m *regattapb.RangeResponse) error {
	s.msgs = append(s.msgs, proto.Clone(m).(*regattapb.RangeResponse))
	return nil
}
func (s *collectStream) Context() context.Context { return context.Background() }

// runC09Layers: what the state machine answers (compared with the model by the main part of this engine) must reach the
// client unchanged through the layers above it: table.ActiveTable.Range / Iterator, regattaserver.KVServer.Range and
// KVServer.IterateRange - pairs, count and 'more' for every limit relative to the number of matches and every flag
// variant, in one message and in several.
func runC09Layers(sum *Summary) error {
	h, err := newSimHost(rand.New(rand.NewSource(9)), 1)
	if err != nil {
		return err
	}
	defer h.close()
	at := table.Table{Name: "t", ClusterID: 10001}.AsActive(h)
	eng := &tableEngine{h: h, at: at}
	srv := &regattaserver.KVServer{Storage: eng}
	ctx := context.Background()
	hl := sum.hist("layers")
	for _, big := range []bool{false, true} {
		n := 12
		prefix := "small/"
		val := []byte("v")
		if big {
			n, prefix, val = 7, "big/", bytes.Repeat([]byte{'x'}, 1300*1024) // several messages
		}
		for i := 0; i < n; i++ {
			if _, err := at.Put(ctx, &regattapb.PutRequest{Table: []byte("t"), Key: []byte(fmt.Sprintf("%s%02d", prefix, i)), Value: val}); err != nil {
				return err
			}
		}
		lo, hi := []byte(prefix), []byte(prefix[:len(prefix)-1]+"0")
		for _, limit := range []int64{0, 1, int64(n) - 1, int64(n), int64(n) + 1, 1000} {
			for _, flags := range [][2]bool{{false, false}, {true, false}, {false, true}} {
				q := gRange{Key: lo, End: hi, Limit: limit, KeysOnly: flags[0], CountOnly: flags[1]}
				base, err := h.reps[0].read(q)
				if err != nil {
					return err
				}
				pages, err := h.reps[0].iterate(q)
				if err != nil {
					return err
				}
				req := &regattapb.RangeRequest{Table: []byte("t"), Key: lo, RangeEnd: hi, Limit: limit, KeysOnly: flags[0], CountOnly: flags[1], Linearizable: true}
				in := map[string]any{"stored_pairs_in_range": n, "value_bytes": len(val), "limit": limit, "keys_only": flags[0], "count_only": flags[1]}
				sum.Evaluations++
				hl.Inc(fmt.Sprintf("big=%v", big))
				same := func(kvs []*regattapb.KeyValue, count int64, more bool, want *regattapb.ResponseOp_Range) string {
					if count != want.Count || more != want.More || len(kvs) != len(want.Kvs) {
						return fmt.Sprintf("count %d more %v pairs %d; state machine: count %d more %v pairs %d", count, more, len(kvs), want.Count, want.More, len(want.Kvs))
					}
					for i := range kvs {
						if !bytes.Equal(kvs[i].Key, want.Kvs[i].Key) || !bytes.Equal(kvs[i].Value, want.Kvs[i].Value) {
							return fmt.Sprintf("pair %d differs", i)
						}
					}
					return ""
				}
				// one message
				tr, err := at.Range(ctx, req)
				if err != nil {
					return err
				}
				if d := same(tr.Kvs, tr.Count, tr.More, base); d != "" {
					sum.violate(400000, "the table layer changes the answer of a range read", in, d)
				}
				sr, err := srv.Range(ctx, req)
				if err != nil {
					return err
				}
				if d := same(sr.Kvs, sr.Count, sr.More, base); d != "" {
					sum.violate(400001, "the API server changes the answer of a range read", in, d)
				}
				// several messages
				st := &collectStream{}
				if err := srv.IterateRange(req, st); err != nil {
					return err
				}
				if len(st.msgs) != len(pages) {
					sum.violate(400002, "the API server streams a different number of messages than the state machine produced", in, fmt.Sprintf("%d vs %d", len(st.msgs), len(pages)))
					continue
				}
				for i, m := range st.msgs {
					if d := same(m.Kvs, m.Count, m.More, pages[i]); d != "" {
						in["message"] = i
						in["of_messages"] = len(pages)
						sum.violate(400003, "the API server changes a message of a streamed range read", in, d)
						break
					}
				}
				// the streamed read as a whole: all but the last message flagged 'more'; the last one exactly when pairs
				// of the range remain (i.e. the limit cut the read)
				var total int64
				for i, m := range st.msgs {
					total += m.Count
					if i < len(st.msgs)-1 && !m.More {
						sum.violate(400004, "a message of a streamed range read that is not the last one is not flagged 'more'", in, fmt.Sprint(i))
					}
				}
				if len(st.msgs) > 0 {
					cut := limit > 0 && limit < int64(n)
					if last := st.msgs[len(st.msgs)-1]; last.More != cut {
						sum.violate(400005, "'more' of the last message of a streamed range read is not 'pairs of the range remain'", in, fmt.Sprintf("more=%v, %d of %d pairs delivered", last.More, total, n))
					}
					want := int64(n)
					if cut {
						want = limit
					}
					if total != want {
						sum.violate(400006, "a streamed range read does not deliver (or count) the pairs of the range up to the limit", in, fmt.Sprintf("%d, expected %d", total, want))
					}
				}
			}
		}
	}
	// binary keys: a range end that merely STARTS with a NUL byte is an ordinary bound, not the wildcard
	{
		be := func(i int) []byte { return []byte{0, 0, 0, byte(i)} }
		for i := 0; i < 10; i++ {
			if _, err := at.Put(ctx, &regattapb.PutRequest{Table: []byte("t"), Key: be(i), Value: []byte("v")}); err != nil {
				return err
			}
		}
		for _, flags := range [][2]bool{{false, false}, {true, false}, {false, true}} {
			for _, limit := range []int64{0, 2, 3} {
				req := &regattapb.RangeRequest{Table: []byte("t"), Key: be(2), RangeEnd: be(5), Limit: limit, KeysOnly: flags[0], CountOnly: flags[1], Linearizable: true}
				in := map[string]any{"stored": "keys 00 00 00 00 .. 00 00 00 09", "range": "[00 00 00 02, 00 00 00 05)", "limit": limit, "keys_only": flags[0], "count_only": flags[1]}
				sum.Evaluations++
				wantN := int64(3)
				if limit > 0 && limit < 3 {
					wantN = limit
				}
				wantMore := limit > 0 && limit < 3
				check := func(layer string, kvs []*regattapb.KeyValue, count int64, more bool) {
					bad := count != wantN || more != wantMore
					for _, kv := range kvs {
						if bytes.Compare(kv.Key, be(5)) >= 0 || bytes.Compare(kv.Key, be(2)) < 0 {
							bad = true
						}
					}
					if bad {
						in["layer"] = layer
						sum.violate(410000, "a range read with a range end starting with a NUL byte does not return exactly the pairs of [key, range_end)", in, fmt.Sprintf("count %d more %v pairs %d (expected %d, more %v)", count, more, len(kvs), wantN, wantMore))
					}
				}
				base, err := h.reps[0].read(gRange{Key: be(2), End: be(5), Limit: limit, KeysOnly: flags[0], CountOnly: flags[1]})
				if err != nil {
					return err
				}
				check("state machine", base.Kvs, base.Count, base.More)
				sr, err := srv.Range(ctx, req)
				if err != nil {
					return err
				}
				check("KV.Range", sr.Kvs, sr.Count, sr.More)
			}
		}
	}
	return nil
}
