package main

import (
	"bytes"
	"context"
	"errors"
	"flag"
	"fmt"
	"math/rand"
	"strings"
	"sync"
	"sync/atomic"
	"time"

	"github.com/cockroachdb/pebble/vfs"
	"github.com/jamf/regatta/regattapb"
	"github.com/jamf/regatta/storage/table"
	"github.com/jamf/regatta/storage/table/fsm"
	"github.com/lni/dragonboat/v4"
	"github.com/lni/dragonboat/v4/client"
	sm "github.com/lni/dragonboat/v4/statemachine"
)

func init() { register("c10", runC10) }

// simHost is a deterministic stand-in for a dragonboat NodeHost: one committed log, several real fsm.FSM replicas
// that apply it with seed-chosen lag and batching. It implements the ReadIndex contract: a SyncRead is served by
// a replica that has applied at least everything committed when the read started.
type simHost struct {
	r        *rand.Rand
	log      []sm.Entry
	reps     []*realFSM
	applied  []int // entries of log applied per replica
	nextIdx  uint64
	calls    []string // "sync" / "stale" per read, in order
	lastRead int      // applied count of the replica that served the last read
	// concurrent clients: a proposal made while holdNext is set is appended to the log and waits; the next proposal
	// applies both in ONE Update call on the leader (what dragonboat does with proposals that arrive together)
	mu         sync.Mutex
	holdNext   bool
	leaderless bool
	held       []heldProposal
	registered chan struct{}
	// a consensus read made while holdRead is set executes at once but returns only when releaseRead is closed (a slow
	// client, a long ReadIndex round trip)
	holdRead    bool
	readHeld    chan struct{}
	releaseRead chan struct{}
}

type heldProposal struct {
	pos int
	ch  chan heldResult
}
type heldResult struct {
	res sm.Result
	err error
}

func newSimHost(r *rand.Rand, n int) (*simHost, error) {
	h := &simHost{r: r, nextIdx: uint64(r.Intn(3)), registered: make(chan struct{}, 1)}
	for i := 0; i < n; i++ {
		f, _, err := newRealFSM(vfs.NewMem(), fsm.RecoveryTypeSnapshot)
		if err != nil {
			return nil, err
		}
		h.reps = append(h.reps, f)
		h.applied = append(h.applied, 0)
	}
	return h, nil
}

func (h *simHost) close() {
	for _, f := range h.reps {
		f.close()
	}
}

// catchUp applies log entries [applied, upto) to replica i in random batches; returns the results of the last entry.
func (h *simHost) catchUp(i, upto int) (sm.Result, error) {
	var last sm.Result
	for h.applied[i] < upto {
		k := 1 + h.r.Intn(3)
		if h.applied[i]+k > upto {
			k = upto - h.applied[i]
		}
		batch := make([]sm.Entry, k)
		copy(batch, h.log[h.applied[i]:h.applied[i]+k])
		res, err := h.reps[i].f.Update(batch)
		if err != nil {
			return last, err
		}
		last = res[len(res)-1].Result
		h.applied[i] += k
	}
	return last, nil
}

func (h *simHost) SyncPropose(_ context.Context, _ *client.Session, cmd []byte) (sm.Result, error) {
	h.mu.Lock()
	h.nextIdx += uint64(1 + h.r.Intn(2))
	h.log = append(h.log, sm.Entry{Index: h.nextIdx, Cmd: cmd})
	if h.holdNext {
		h.holdNext = false
		ch := make(chan heldResult, 1)
		h.held = append(h.held, heldProposal{len(h.log) - 1, ch})
		h.mu.Unlock()
		h.registered <- struct{}{}
		r := <-ch
		return r.res, r.err
	}
	defer h.mu.Unlock()
	var res sm.Result
	var err error
	if len(h.held) > 0 {
		// everything the leader has not applied yet goes into one apply call
		from := h.applied[0]
		batch := make([]sm.Entry, len(h.log)-from)
		copy(batch, h.log[from:])
		var out []sm.Entry
		out, err = h.reps[0].f.Update(batch)
		if err == nil {
			h.applied[0] = len(h.log)
			res = out[len(out)-1].Result
		}
		for _, hp := range h.held {
			hr := heldResult{err: err}
			if err == nil {
				hr.res = out[hp.pos-from].Result
			}
			hp.ch <- hr
		}
		h.held = nil
		if err != nil {
			return sm.Result{}, err
		}
	} else {
		// replica 0 is the leader: it applies at once
		res, err = h.catchUp(0, len(h.log))
		if err != nil {
			return sm.Result{}, err
		}
	}
	// followers lag by a random amount
	for i := 1; i < len(h.reps); i++ {
		if h.r.Intn(2) == 0 {
			if _, err := h.catchUp(i, h.applied[i]+h.r.Intn(len(h.log)-h.applied[i]+1)); err != nil {
				return sm.Result{}, err
			}
		}
	}
	return res, nil
}

func (h *simHost) SyncRead(_ context.Context, _ uint64, req interface{}) (interface{}, error) {
	if h.leaderless {
		// no known leader (partitioned replica, election): dragonboat drops the read index request
		h.calls = append(h.calls, "sync-dropped")
		return nil, dragonboat.ErrShardNotReady
	}
	var v interface{}
	var err error
	hold := false
	func() {
		h.mu.Lock()
		defer h.mu.Unlock() // a lookup that panics (the caller may recover) must not keep the host locked
		h.calls = append(h.calls, "sync")
		i := h.r.Intn(len(h.reps))
		if _, err = h.catchUp(i, len(h.log)); err != nil { // ReadIndex: applied >= commit index at the start of the read
			return
		}
		h.lastRead = h.applied[i]
		v, err = h.reps[i].f.Lookup(req)
		hold = h.holdRead
		h.holdRead = false
	}()
	if err != nil {
		return nil, err
	}
	if hold {
		h.readHeld <- struct{}{}
		<-h.releaseRead
	}
	return v, err
}

func (h *simHost) StaleRead(_ uint64, req interface{}) (interface{}, error) {
	h.calls = append(h.calls, "stale")
	i := h.r.Intn(len(h.reps))
	h.lastRead = h.applied[i]
	return h.reps[i].f.Lookup(req)
}

func (h *simHost) GetNoOPSession(id uint64) *client.Session { return &client.Session{ShardID: id} }

// referenceAt replays the first k log entries (one entry per apply call) into a fresh state machine.
func (h *simHost) referenceAt(k int) (*realFSM, error) {
	f, _, err := newRealFSM(vfs.NewMem(), fsm.RecoveryTypeSnapshot)
	if err != nil {
		return nil, err
	}
	for _, e := range h.log[:k] {
		if _, err := f.f.Update([]sm.Entry{e}); err != nil {
			return nil, err
		}
	}
	return f, nil
}

func runC10(args []string) error {
	txnHeavy := false
	rf, err := parseFlags("c10", args, func(fs *flag.FlagSet) {
		fs.BoolVar(&txnHeavy, "txn", false, "transaction-heavy scripts (the table layer under C02)")
	})
	if err != nil {
		return err
	}
	r := rf.rng()
	n := rf.count(120, 2000)
	sum := &Summary{Engine: "c10", Seed: rf.Seed,
		Rule: "client scripts of 6-20 operations (put, delete range, transactions incl. empty branches and read-only ones, linearizable and serializable range reads) through the real table.ActiveTable on a simulated Raft host: one committed log, three real fsm.FSM replicas with seed-chosen lag and apply batching, SyncRead served after catching up to the commit index (ReadIndex contract), StaleRead served by a lagging replica as is; checked: revision = log index and strictly increasing, linearizable reads and read-only transactions equal the fully caught-up state, serializable reads equal the state at the serving replica's prefix (recomputed by replay), read path per request kind; plus a range read delivered in several messages with a transaction applied between two of them (one state, not a mix); distinct = distinct scripts; non-trivial = at least one stale read served by a lagging replica and one empty-branch transaction"}
	cf := &CasesFile{Requires: []string{"Model.Bytes", "Model.Obs", "Model.Cmd", "Model.Fsm", "Run.FsmRun"}, CaseType: "fcase",
		Check: "fsm_check", Show: "fsm_model", Spec: "fsm_spec_check", SpecShow: "fsm_spec"}
	ho := sum.hist("ops")
	hl := sum.hist("lag")
	ctx := context.Background()
	seen := map[string]bool{}
	for c := 0; c < n; c++ {
		err := func() error {
			h, err := newSimHost(r, 3)
			if err != nil {
				return err
			}
			g := newFsmGen(r, Hist{})
			if txnHeavy {
				g.txnW = 12
			}
			at := table.Table{Name: "t", ClusterID: 10001}.AsActive(h)
			var steps []gStep
			var obs []string
			var descr []string
			var lastRev uint64
			lagged, emptyBranch := false, false
			nops := 6 + r.Intn(15)
			for o := 0; o < nops; o++ {
				in := func() map[string]any { return map[string]any{"script": strings.Join(descr, " ; ")} }
				if r.Intn(8) == 0 && len(h.log) > 0 {
					// a linearizable read on a replica that has lost its leader: an error (retry) is fine, an answer has to
					// reflect every acknowledged write
					rq := g.rng()
					h.leaderless = true
					resp, rerr := at.Range(ctx, &regattapb.RangeRequest{Table: []byte("t"), Key: rq.Key, RangeEnd: rq.End, Limit: rq.Limit, KeysOnly: rq.KeysOnly, CountOnly: rq.CountOnly, Linearizable: true})
					var tresp *regattapb.TxnResponse
					var terr error
					if rerr != nil {
						tresp, terr = at.Txn(ctx, &regattapb.TxnRequest{Table: []byte("t"), Success: []*regattapb.RequestOp{{Request: &regattapb.RequestOp_RequestRange{RequestRange: rq.pb()}}}})
					}
					h.leaderless = false
					ho.Inc("read-linearizable-without-leader")
					ref, err := h.referenceAt(len(h.log))
					if err != nil {
						return err
					}
					want, err := ref.read(rq)
					ref.close()
					if err != nil {
						return err
					}
					descr = append(descr, fmt.Sprintf("leaderless %s lin=true", rq))
					if rerr == nil && oL(oKVs(resp.Kvs), oBool(resp.More), oN(resp.Count)) != oRange(want) {
						sum.violate(c, "a linearizable read answered while the replica had no leader misses acknowledged writes", in(), fmt.Sprintf("served from prefix %d of %d", h.lastRead, len(h.log)))
					}
					if rerr != nil && terr == nil && len(tresp.Responses) == 1 && oRange(tresp.Responses[0].GetResponseRange()) != oRange(want) {
						sum.violate(c, "a read-only transaction answered while the replica had no leader misses acknowledged writes", in(), fmt.Sprintf("served from prefix %d of %d", h.lastRead, len(h.log)))
					}
					continue
				}
				if r.Intn(5) == 0 {
					// two clients write at the same time: both proposals are applied by ONE Update call on the leader; the
					// responses must still be those of the two writes taken one after the other in revision order
					k1 := g.key()
					k2 := k1
					if r.Intn(3) == 0 {
						k2 = g.key()
					}
					pa := &regattapb.PutRequest{Table: []byte("t"), Key: k1, Value: g.val(), PrevKv: r.Intn(3) > 0}
					pb := &regattapb.PutRequest{Table: []byte("t"), Key: k2, Value: g.val(), PrevKv: true}
					descr = append(descr, fmt.Sprintf("concurrently{put[%s=%s prev=%v] put[%s=%s prev=%v]}", q(pa.Key), q(pa.Value), pa.PrevKv, q(pb.Key), q(pb.Value), pb.PrevKv))
					ho.Inc("concurrent-put-pair")
					type putRes struct {
						resp *regattapb.PutResponse
						err  error
					}
					ach := make(chan putRes, 1)
					h.mu.Lock()
					h.holdNext = true
					h.mu.Unlock()
					go func() {
						resp, err := at.Put(ctx, pa)
						ach <- putRes{resp, err}
					}()
					<-h.registered
					respB, err := at.Put(ctx, pb)
					if err != nil {
						return &implErr{err: err, script: strings.Join(descr, " ; ")}
					}
					ra := <-ach
					if ra.err != nil {
						return &implErr{err: ra.err, script: strings.Join(descr, " ; ")}
					}
					for j, pr := range []struct {
						p    *regattapb.PutRequest
						resp *regattapb.PutResponse
					}{{pa, ra.resp}, {pb, respB}} {
						idx := h.log[len(h.log)-2+j].Index
						rev := pr.resp.Header.GetRevision()
						if rev != idx || rev <= lastRev {
							sum.violate(c, "acknowledged mutation reports a revision that is not its log position", in(), fmt.Sprintf("revision %d index %d previous %d (concurrent pair)", rev, idx, lastRev))
						}
						lastRev = idx
						cmd, _ := wireNormal(gCmd{Kind: regattapb.Command_PUT, K: pr.p.Key, V: pr.p.Value, Prev: pr.p.PrevKv})
						steps = append(steps, gStep{Kind: 0, Entries: []gEntry{{Idx: idx, Cmd: cmd}}})
						prev := oL()
						if pr.resp.PrevKv != nil {
							prev = oL(oKV(pr.resp.PrevKv))
						}
						obs = append(obs, oL(oL(oL(oU(1), oBool(true), oU(rev), oL(oL(oN(1), prev)))), oU(idx)))
					}
					continue
				}
				switch k := r.Intn(10); {
				case k < 3: // put
					p := &regattapb.PutRequest{Table: []byte("t"), Key: g.key(), Value: g.val(), PrevKv: r.Intn(2) == 0}
					descr = append(descr, fmt.Sprintf("put[%s=%s prev=%v]", q(p.Key), q(p.Value), p.PrevKv))
					resp, err := at.Put(ctx, p)
					if err != nil {
						return &implErr{err: err, script: strings.Join(descr, " ; ")}
					}
					ho.Inc("put")
					idx := h.log[len(h.log)-1].Index
					rev := resp.Header.GetRevision()
					if rev != idx || rev <= lastRev {
						sum.violate(c, "acknowledged mutation reports a revision that is not its log position", in(), fmt.Sprintf("revision %d index %d previous %d", rev, idx, lastRev))
					}
					lastRev = idx
					cmd, _ := wireNormal(gCmd{Kind: regattapb.Command_PUT, K: p.Key, V: p.Value, Prev: p.PrevKv})
					steps = append(steps, gStep{Kind: 0, Entries: []gEntry{{Idx: idx, Cmd: cmd}}})
					prev := oL()
					if resp.PrevKv != nil {
						prev = oL(oKV(resp.PrevKv))
					}
					obs = append(obs, oL(oL(oL(oU(1), oBool(true), oU(rev), oL(oL(oN(1), prev)))), oU(idx)))
				case k < 5: // delete range
					d := &regattapb.DeleteRangeRequest{Table: []byte("t"), Key: g.key(), RangeEnd: g.end(50), PrevKv: r.Intn(2) == 0, Count: r.Intn(2) == 0}
					descr = append(descr, fmt.Sprintf("delete[%s,%s prev=%v cnt=%v]", q(d.Key), q(d.RangeEnd), d.PrevKv, d.Count))
					resp, err := at.Delete(ctx, d)
					if err != nil {
						return &implErr{err: err, script: strings.Join(descr, " ; ")}
					}
					ho.Inc("delete")
					idx := h.log[len(h.log)-1].Index
					rev := resp.Header.GetRevision()
					if rev != idx || rev <= lastRev {
						sum.violate(c, "acknowledged mutation reports a revision that is not its log position", in(), fmt.Sprintf("revision %d index %d previous %d", rev, idx, lastRev))
					}
					lastRev = idx
					cmd, _ := wireNormal(gCmd{Kind: regattapb.Command_DELETE, K: d.Key, End: d.RangeEnd, Prev: d.PrevKv, Count: d.Count})
					steps = append(steps, gStep{Kind: 0, Entries: []gEntry{{Idx: idx, Cmd: cmd}}})
					obs = append(obs, oL(oL(oL(oU(1), oBool(true), oU(rev), oL(oL(oN(2), oN(resp.Deleted), oKVs(resp.PrevKvs))))), oU(idx)))
				case k < 8: // transaction
					t := g.txn()
					if r.Intn(4) == 0 {
						t.Succ, t.Fail = nil, nil
					}
					if txnHeavy && r.Intn(3) == 0 {
						// no predicate and nothing but puts (some asking for the previous pair) in the executed branch
						t.Cmps, t.Succ = nil, nil
						for j := 1 + r.Intn(4); j > 0; j-- {
							t.Succ = append(t.Succ, gOp{Kind: 1, K: g.key(), V: g.val(), Prev: r.Intn(3) != 0})
						}
						ho.Inc("txn-puts-only")
					} else if r.Intn(5) == 0 { // read-only
						var su, fa []gOp
						for _, o := range t.Succ {
							if o.Kind == 0 {
								su = append(su, o)
							}
						}
						for _, o := range t.Fail {
							if o.Kind == 0 {
								fa = append(fa, o)
							}
						}
						t.Succ, t.Fail = su, fa
					}
					req := &regattapb.TxnRequest{Table: []byte("t")}
					for _, x := range t.Cmps {
						req.Compare = append(req.Compare, x.pb())
					}
					for _, x := range t.Succ {
						req.Success = append(req.Success, x.pb())
					}
					for _, x := range t.Fail {
						req.Failure = append(req.Failure, x.pb())
					}
					descr = append(descr, fmt.Sprintf("txn if%v then%v else%v", t.Cmps, t.Succ, t.Fail))
					ncalls, nlog := len(h.calls), len(h.log)
					resp, err := at.Txn(ctx, req)
					if err != nil {
						return &implErr{err: err, script: strings.Join(descr, " ; ")}
					}
					if req.IsReadonly() {
						ho.Inc("txn-readonly")
						if len(h.log) != nlog || len(h.calls) != ncalls+1 || h.calls[ncalls] != "sync" {
							sum.violate(c, "read-only transaction not served through the linearizable read path", in(), fmt.Sprint(h.calls[ncalls:]))
						}
						if h.lastRead != len(h.log) {
							sum.violate(c, "read-only transaction served from a state that misses acknowledged writes", in(), nil)
						}
						steps = append(steps, gStep{Kind: 3, Cmps: t.Cmps, Succ: t.Succ, Fail: t.Fail})
						obs = append(obs, oL(oBool(resp.Succeeded), oResps(resp.Responses)))
					} else {
						ho.Inc("txn")
						idx := h.log[len(h.log)-1].Index
						rev := resp.Header.GetRevision()
						executed := t.Succ
						if !resp.Succeeded {
							executed = t.Fail
						}
						if len(executed) == 0 {
							emptyBranch = true
							ho.Inc("txn-empty-branch")
						}
						if rev != idx || rev <= lastRev {
							sum.violate(c, "acknowledged mutation reports a revision that is not its log position", in(), fmt.Sprintf("revision %d index %d previous %d (executed branch has %d operations)", rev, idx, lastRev, len(executed)))
						}
						lastRev = idx
						cmd, _ := wireNormal(gCmd{Kind: regattapb.Command_TXN, Cmps: t.Cmps, Succ: t.Succ, Fail: t.Fail})
						steps = append(steps, gStep{Kind: 0, Entries: []gEntry{{Idx: idx, Cmd: cmd}}})
						val := uint64(0)
						if resp.Succeeded {
							val = 1
						}
						obs = append(obs, oL(oL(oL(oU(val), oBool(true), oU(rev), oResps(resp.Responses))), oU(idx)))
					}
				default: // range read
					rq := g.rng()
					lin := r.Intn(2) == 0
					req := &regattapb.RangeRequest{Table: []byte("t"), Key: rq.Key, RangeEnd: rq.End, Limit: rq.Limit, KeysOnly: rq.KeysOnly, CountOnly: rq.CountOnly, Linearizable: lin}
					descr = append(descr, fmt.Sprintf("%s lin=%v", rq, lin))
					ncalls := len(h.calls)
					resp, err := at.Range(ctx, req)
					if err != nil {
						return &implErr{err: err, script: strings.Join(descr, " ; ")}
					}
					got := oL(oKVs(resp.Kvs), oBool(resp.More), oN(resp.Count))
					if lin {
						ho.Inc("read-linearizable")
						if h.calls[ncalls] != "sync" {
							sum.violate(c, "linearizable read served through the stale read path", in(), nil)
						}
						steps = append(steps, gStep{Kind: 1, R: rq})
						obs = append(obs, got)
					} else {
						ho.Inc("read-serializable")
						if h.lastRead < len(h.log) {
							lagged = true
							hl.Inc(fmt.Sprintf("behind-by-%d", len(h.log)-h.lastRead))
						} else {
							hl.Inc("behind-by-0")
						}
					}
					// oracle for both: the answer is the answer of the state after the prefix the serving replica had applied
					ref, err := h.referenceAt(h.lastRead)
					if err != nil {
						return err
					}
					want, err := ref.read(rq)
					ref.close()
					if err != nil {
						return err
					}
					if oRange(want) != got {
						sum.violate(c, "read does not reflect a prefix of the acknowledged writes", in(), fmt.Sprintf("prefix %d of %d", h.lastRead, len(h.log)))
					}
					if lin && h.lastRead != len(h.log) {
						sum.violate(c, "linearizable read served from a state that misses acknowledged writes", in(), nil)
					}
				}
			}
			h.close()
			d := strings.Join(descr, " ; ")
			normalizeSteps(steps)
			cf.Add(fmt.Sprintf("{| f_steps := %s; f_impl := %s |}", stepsCoq(steps), oLs(obs)), stepsDescr(steps))
			if !seen[d] && lagged && emptyBranch {
				sum.DistinctNontrivial++
			}
			seen[d] = true
			if len(sum.Samples) < 3 && lagged && emptyBranch {
				sum.Samples = append(sum.Samples, d)
			}
			return nil
		}()
		var ie *implErr
		if errors.As(err, &ie) {
			// the simulated host accepts and applies every proposal: an error here is produced by the table layer or
			// the state machine itself (e.g. a result that cannot be decoded)
			sum.violate(c, "a request that was committed and applied fails at the caller", map[string]any{"script": ie.script}, ie.err.Error())
			continue
		}
		if err != nil {
			return err
		}
	}
	sum.Evaluations = n
	if err := runC10ConcurrentReads(sum); err != nil {
		return err
	}
	if err := runC10BigEntryAtomic(sum); err != nil {
		return err
	}
	var clusterCases []string
	if !txnHeavy {
		var err error
		if clusterCases, err = runC10Cluster(rf, sum); err != nil {
			return err
		}
	}
	// one read delivered in several messages is one state too
	if err := lazyStreamOneState(sum, joinChunks); err != nil {
		return err
	}
	if len(sum.Samples) == 0 {
		sum.Samples = append(sum.Samples, cf.Descr[0])
	}
	names, err := cf.Write(rf.Out, "c10_cases", 15)
	if err != nil {
		return err
	}
	sum.CasesFiles = append(names, clusterCases...)
	return sum.write(rf.Out, "c10")
}

type implErr struct {
	err    error
	script string
}

func (e *implErr) Error() string { return e.err.Error() }

// runC10ConcurrentReads: two clients send the SAME linearizable range request; the first one's answer is held back
// (it was computed before a write), a write is acknowledged, then the second client asks: its answer must contain the
// write, whatever the first request is still doing.
func runC10ConcurrentReads(sum *Summary) error {
	for round := 0; round < 3; round++ {
		h, err := newSimHost(rand.New(rand.NewSource(int64(77+round))), 1+round)
		if err != nil {
			return err
		}
		at := table.Table{Name: "t", ClusterID: 10001}.AsActive(h)
		ctx := context.Background()
		if _, err := at.Put(ctx, &regattapb.PutRequest{Table: []byte("t"), Key: []byte("k"), Value: []byte("v0")}); err != nil {
			return err
		}
		req := func() *regattapb.RangeRequest {
			return &regattapb.RangeRequest{Table: []byte("t"), Key: []byte("k"), Linearizable: true}
		}
		type res struct {
			r   *regattapb.RangeResponse
			err error
		}
		h.mu.Lock()
		h.holdRead, h.readHeld, h.releaseRead = true, make(chan struct{}, 1), make(chan struct{})
		h.mu.Unlock()
		aCh, bCh := make(chan res, 1), make(chan res, 1)
		go func() { r, err := at.Range(ctx, req()); aCh <- res{r, err} }()
		select {
		case <-h.readHeld:
		case <-time.After(10 * time.Second):
			return fmt.Errorf("harness: the first read never reached the host")
		}
		if _, err := at.Put(ctx, &regattapb.PutRequest{Table: []byte("t"), Key: []byte("k"), Value: []byte("v1")}); err != nil {
			return err
		}
		go func() { r, err := at.Range(ctx, req()); bCh <- res{r, err} }()
		time.Sleep(100 * time.Millisecond)
		close(h.releaseRead)
		rb, ra := <-bCh, <-aCh
		sum.Evaluations++
		sum.hist("ops").Inc("identical linearizable reads overlapping a write")
		if rb.err == nil && (len(rb.r.Kvs) != 1 || string(rb.r.Kvs[0].Value) != "v1") {
			got := "nothing"
			if len(rb.r.Kvs) == 1 {
				got = string(rb.r.Kvs[0].Value)
			}
			sum.violate(880000+round, "linearizable read served from a state that misses acknowledged writes", map[string]any{"script": "put k=v0 ; client A: linearizable range k (answer delayed) ; put k=v1 acknowledged ; client B: the same linearizable range k"},
				fmt.Sprintf("client B read %s", got))
		}
		_ = ra
		h.close()
	}
	return nil
}

// runC10BigEntryAtomic: ONE log entry (a transaction of ten puts of 2 MiB, more than a Pebble batch of the state
// machine's usual size) is applied while readers count the keys it writes: every read sees none or all of them - a
// revision is published in one step, whatever its size.
func runC10BigEntryAtomic(sum *Summary) error {
	f, _, err := newRealFSM(vfs.NewMem(), fsm.RecoveryTypeSnapshot)
	if err != nil {
		return err
	}
	defer f.close()
	var succ []gOp
	for i := 0; i < 10; i++ {
		succ = append(succ, gOp{Kind: 1, K: []byte(fmt.Sprintf("huge/%02d", i)), V: bytes.Repeat([]byte{byte('a' + i)}, 2*1024*1024-64)})
	}
	stop := make(chan struct{})
	var torn atomic.Int64
	var tornCount atomic.Int64
	var reads atomic.Int64
	var wg sync.WaitGroup
	for r := 0; r < 3; r++ {
		wg.Add(1)
		go func() {
			defer wg.Done()
			for {
				select {
				case <-stop:
					return
				default:
				}
				res, err := f.read(gRange{Key: []byte("huge/"), End: []byte("huge0"), CountOnly: true})
				if err != nil {
					continue
				}
				reads.Add(1)
				if res.Count != 0 && res.Count != 10 {
					torn.Add(1)
					tornCount.Store(res.Count)
				}
			}
		}()
	}
	time.Sleep(20 * time.Millisecond)
	_, _, aerr := f.apply([]gEntry{{Idx: 1, Cmd: gCmd{Kind: regattapb.Command_TXN, Succ: succ}}})
	time.Sleep(20 * time.Millisecond)
	close(stop)
	wg.Wait()
	if aerr != nil {
		return aerr
	}
	sum.Evaluations++
	sum.hist("ops").Inc("reads during one 20 MiB entry")
	if torn.Load() > 0 {
		sum.violate(890000, "read does not reflect a prefix of the acknowledged writes", map[string]any{"script": "one transaction of ten puts of 2 MiB applied by one Update call; three readers count the keys it writes meanwhile"},
			fmt.Sprintf("%d of %d reads saw a part of the transaction (e.g. %d of its 10 keys)", torn.Load(), reads.Load(), tornCount.Load()))
	}
	return nil
}
