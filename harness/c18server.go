package main

import (
	"bytes"
	"context"
	"fmt"
	"net"
	"sync"
	"time"

	"github.com/jamf/regatta/regattapb"
	"github.com/jamf/regatta/regattaserver"
	"go.uber.org/zap"
	"google.golang.org/grpc"
	"google.golang.org/grpc/credentials/insecure"
)

// echoKV is a storage stub that looks at the request a little later than it arrives (as a real handler does while it
// waits for a read index or a proposal) and hands back what it sees: the key in the previous pair of the answer.
type echoKV struct{ regattaserver.KVService }

func (echoKV) Put(_ context.Context, req *regattapb.PutRequest) (*regattapb.PutResponse, error) {
	time.Sleep(200 * time.Microsecond)
	return &regattapb.PutResponse{PrevKv: &regattapb.KeyValue{Key: append([]byte(nil), req.Key...), Value: append([]byte(nil), req.Value...)}}, nil
}

// runC18Server: messages survive the codec also inside a real API server (regattaserver.NewServer with its default
// options, the registered codec, the KV service) with several uncompressed requests in flight on one connection and on
// several: what the handler reads - some time after the message was decoded - is what the client sent.
func runC18Server(sum *Summary) error {
	l, err := net.Listen("tcp", "127.0.0.1:0")
	if err != nil {
		return err
	}
	srv := regattaserver.NewServer(l, zap.NewNop().Sugar())
	regattapb.RegisterKVServer(srv, &regattaserver.KVServer{Storage: echoKV{}})
	go func() { _ = srv.Serve() }()
	defer srv.Shutdown()
	var mu sync.Mutex
	bad, total := 0, 0
	first := ""
	var wg sync.WaitGroup
	for c := 0; c < 4; c++ {
		conn, err := grpc.NewClient(l.Addr().String(), grpc.WithTransportCredentials(insecure.NewCredentials()))
		if err != nil {
			return err
		}
		defer conn.Close()
		cli := regattapb.NewKVClient(conn)
		for g := 0; g < 8; g++ {
			wg.Add(1)
			go func(c, g int) {
				defer wg.Done()
				for i := 0; i < 60; i++ {
					key := []byte(fmt.Sprintf("key-of-client-%02d-%02d-request-%03d", c, g, i))
					val := bytes.Repeat([]byte{byte('a' + (c*8+g)%26)}, 40+i%7)
					ctx, cancel := context.WithTimeout(context.Background(), 10*time.Second)
					resp, err := cli.Put(ctx, &regattapb.PutRequest{Table: []byte("t"), Key: key, Value: val})
					cancel()
					mu.Lock()
					total++
					if err != nil || !bytes.Equal(resp.GetPrevKv().GetKey(), key) || !bytes.Equal(resp.GetPrevKv().GetValue(), val) {
						bad++
						if first == "" {
							first = fmt.Sprintf("sent key %q, the handler saw key %q (error %v)", key, resp.GetPrevKv().GetKey(), err)
						}
					}
					mu.Unlock()
				}
			}(c, g)
		}
	}
	wg.Wait()
	sum.Evaluations += total
	sum.hist("message_types").Inc("requests through a real API server, 32 clients in flight")
	if bad > 0 {
		sum.violate(980000, "a request decoded by the API server is not the message the client sent (seen by the handler a moment after decoding)", map[string]any{"server": "regattaserver.NewServer, default options, KV service", "clients": "4 connections x 8 goroutines x 60 uncompressed Put requests"},
			fmt.Sprintf("%d of %d requests; first: %s", bad, total, first))
	}
	return nil
}
