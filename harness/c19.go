package main

import (
	"fmt"
	"math/rand"
	"strconv"

	"github.com/jamf/regatta/storage/cluster"
	"github.com/lni/dragonboat/v4"
)

func init() { register("c19", runC19) }

type sv struct {
	id, rep, cci, leader, term uint64
}

func (s sv) toGo() dragonboat.ShardView {
	var reps map[uint64]string
	if s.rep != 0 {
		reps = map[uint64]string{1: strconv.FormatUint(s.rep, 10)}
	}
	return dragonboat.ShardView{ShardID: s.id, Replicas: reps, ConfigChangeIndex: s.cci, LeaderID: s.leader, Term: s.term}
}

func fromGo(v dragonboat.ShardView) sv {
	var rep uint64
	if len(v.Replicas) > 0 {
		rep, _ = strconv.ParseUint(v.Replicas[1], 10, 64)
	}
	return sv{v.ShardID, rep, v.ConfigChangeIndex, v.LeaderID, v.Term}
}

func (s sv) coq() string {
	return fmt.Sprintf("(%d, mkv %d %d %d %d)", s.id, s.rep, s.cci, s.leader, s.term)
}

func (s sv) obs() string { return oL(oU(s.rep), oU(s.cci), oU(s.leader), oU(s.term)) }

func applyCalls(calls [][]sv) cluster.VerifShardView {
	v := cluster.VerifNewView()
	for _, c := range calls {
		us := make([]dragonboat.ShardView, len(c))
		for i, u := range c {
			us[i] = u.toGo()
		}
		v.Update(us)
	}
	return v
}

func runC19(args []string) error {
	rf, err := parseFlags("c19", args, nil)
	if err != nil {
		return err
	}
	r := rf.rng()
	n := rf.count(1500, 30000)
	sum := &Summary{Engine: "c19", Seed: rf.Seed,
		Rule: "random multisets of shard updates (terms 0..4, leader ids 0..3 incl. no-leader, config-change indices 0..4, 1-3 shards) split into 1-4 update calls; 3/4 of them Raft-consistent (leader a function of term, membership a function of config-change index), for which the harness also applies two further permutations, a duplicated delivery and a remote-view merge and compares the implementation's views; plus event sequences through a real cluster.Cluster (Raft events, memberlist join/leave/update callbacks, push/pull of peer views incl. lagging peers) with the same oracle after every event; distinct = distinct call sequences; non-trivial = at least two updates for one shard"}
	cf := &CasesFile{Requires: []string{"Model.Bytes", "Model.Obs", "Model.View", "Run.C19Run"}, CaseType: "c19case", Check: "c19_check", Show: "c19_model"}
	seen := map[string]bool{}
	hk := sum.hist("kind")
	ids := []uint64{1, 2, 3}
	for i := 0; i < n; i++ {
		consistent := r.Intn(4) != 0
		nsh := 1 + r.Intn(3)
		nu := r.Intn(9)
		leaderOf := map[uint64]uint64{}
		repOf := map[uint64]uint64{}
		var us []sv
		for j := 0; j < nu; j++ {
			u := sv{id: uint64(1 + r.Intn(nsh)), cci: uint64(r.Intn(5)), term: uint64(r.Intn(5))}
			u.leader = uint64(r.Intn(4))
			u.rep = uint64(r.Intn(4))
			if consistent {
				k := u.id*100 + u.term
				if u.leader != 0 {
					if l, ok := leaderOf[k]; ok {
						u.leader = l
					} else {
						leaderOf[k] = u.leader
					}
				}
				k = u.id*100 + u.cci
				if u.cci == 0 {
					u.rep = 0
				} else if p, ok := repOf[k]; ok {
					u.rep = p
				} else {
					u.rep = 1 + u.rep
					repOf[k] = u.rep
				}
			}
			us = append(us, u)
			if r.Intn(5) == 0 { // duplicate delivery
				us = append(us, u)
			}
		}
		// split into calls
		var calls [][]sv
		cur := []sv{}
		for _, u := range us {
			cur = append(cur, u)
			if r.Intn(3) == 0 {
				calls = append(calls, cur)
				cur = []sv{}
			}
		}
		calls = append(calls, cur)
		v := applyCalls(calls)
		var obsIds, cIds []string
		for _, id := range ids {
			obsIds = append(obsIds, fromGo(v.ShardInfo(id)).obs())
			cIds = append(cIds, cN(id))
		}
		var cCalls []string
		descr := ""
		for _, c := range calls {
			var cs []string
			for _, u := range c {
				cs = append(cs, u.coq())
			}
			cCalls = append(cCalls, cList(cs))
			descr += fmt.Sprint(c)
		}
		term := fmt.Sprintf("{| v_calls := %s; v_ids := %s; v_impl := %s |}", cList(cCalls), cList(cIds), oLs(obsIds))
		cf.Add(term, descr)
		perShard := map[uint64]int{}
		for _, u := range us {
			perShard[u.id]++
		}
		nontrivial := false
		for _, c := range perShard {
			if c >= 2 {
				nontrivial = true
			}
		}
		if !seen[descr] && nontrivial {
			sum.DistinctNontrivial++
		}
		seen[descr] = true
		if consistent {
			hk.Inc("consistent")
		} else {
			hk.Inc("inconsistent(model-only)")
		}
		if len(sum.Samples) < 4 && nontrivial && i%97 == 3 {
			sum.Samples = append(sum.Samples, descr)
		}
		// ---- property oracles on the implementation ----
		if consistent {
			in := map[string]any{"updates": fmt.Sprint(us)}
			base := map[uint64]sv{}
			for _, id := range ids {
				base[id] = fromGo(v.ShardInfo(id))
			}
			for p := 0; p < 3; p++ {
				perm := append([]sv{}, us...)
				rand.New(rand.NewSource(rf.Seed+int64(i*7+p))).Shuffle(len(perm), func(a, b int) { perm[a], perm[b] = perm[b], perm[a] })
				var pc [][]sv
				switch p {
				case 0:
					pc = [][]sv{perm}
				case 1:
					pc = [][]sv{perm, perm} // everything delivered twice
				case 2:
					for _, u := range perm {
						pc = append(pc, []sv{u})
					}
				}
				w := applyCalls(pc)
				for _, id := range ids {
					if got := fromGo(w.ShardInfo(id)); got != base[id] {
						in["permutation"] = fmt.Sprint(pc)
						sum.violate(i, "shard view depends on order/repetition/grouping of the same updates", in, fmt.Sprintf("shard %d: %v vs %v", id, base[id], got))
					}
				}
			}
			// remote view merge: split the updates between two nodes, ship B's view to A
			cut := 0
			if len(us) > 0 {
				cut = r.Intn(len(us) + 1)
			}
			a, b := applyCalls([][]sv{us[:cut]}), applyCalls([][]sv{us[cut:]})
			a.Update(b.Copy())
			for _, id := range ids {
				if got := fromGo(a.ShardInfo(id)); got != base[id] {
					sum.violate(i, "merging a peer's view differs from receiving the peer's updates", in, fmt.Sprintf("cut %d shard %d: %v vs %v", cut, id, base[id], got))
				}
			}
		}
		// monotonicity along the delivery (any multiset)
		w := cluster.VerifNewView()
		last := map[uint64]sv{}
		for _, u := range us {
			w.Update([]dragonboat.ShardView{u.toGo()})
			got := fromGo(w.ShardInfo(u.id))
			if p, ok := last[u.id]; ok {
				if got.term < p.term || (p.leader != 0 && got.leader == 0) {
					sum.violate(i, "reported leader/term moved backwards", map[string]any{"updates": fmt.Sprint(us)}, fmt.Sprintf("%v then %v", p, got))
				}
				if p.leader != 0 && (u.leader == 0 || u.term <= p.term) && (got.leader != p.leader || got.term != p.term) {
					sum.violate(i, "a leaderless or not-newer update replaced a known leader", map[string]any{"updates": fmt.Sprint(us)}, fmt.Sprintf("%v + %v = %v", p, u, got))
				}
			}
			last[u.id] = got
		}
	}
	sum.Evaluations = n
	if len(sum.Samples) == 0 {
		sum.Samples = append(sum.Samples, cf.Descr[0])
	}
	if err := runC19Cluster(rf, sum, cf); err != nil {
		return err
	}
	if err := runC19EngineEvents(sum); err != nil {
		return err
	}
	names, err := cf.Write(rf.Out, "c19_cases", 400)
	if err != nil {
		return err
	}
	sum.CasesFiles = names
	runC19Concurrent(sum)
	return sum.write(rf.Out, "c19")
}

// runC19Concurrent: gossip updates arrive on several goroutines (memberlist callbacks and the Raft event listener);
// whatever the interleaving, the view must end with the newest leader/term AND the newest membership: one stream of
// updates only ever raises the term, the other only the config-change index.
func runC19Concurrent(sum *Summary) {
	rounds := 300
	for r := 0; r < rounds; r++ {
		v := cluster.VerifNewView()
		const n = 40
		done := make(chan struct{}, 2)
		go func() {
			for i := 1; i <= n; i++ {
				v.Update([]dragonboat.ShardView{{ShardID: 1, LeaderID: uint64(1 + i%3), Term: uint64(i)}})
			}
			done <- struct{}{}
		}()
		go func() {
			for i := 1; i <= n; i++ {
				v.Update([]dragonboat.ShardView{{ShardID: 1, Replicas: map[uint64]string{1: strconv.Itoa(i)}, ConfigChangeIndex: uint64(i)}})
			}
			done <- struct{}{}
		}()
		<-done
		<-done
		sum.Evaluations++
		got := v.ShardInfo(1)
		if got.Term != n || got.LeaderID != uint64(1+n%3) || got.ConfigChangeIndex != n || got.Replicas[1] != strconv.Itoa(n) {
			sum.violate(500000+r, "concurrent updates of one shard lose an update (the view does not end with the newest leader and the newest membership)",
				map[string]any{"scenario": "two goroutines: 40 leader/term updates with rising terms, 40 membership updates with rising config-change index", "round": r},
				fmt.Sprintf("view: leader %d term %d config-change %d replicas %v", got.LeaderID, got.Term, got.ConfigChangeIndex, got.Replicas))
			return
		}
	}
	sum.hist("concurrent").Inc("two update streams on one shard")
}
