package main

import (
	"bytes"
	"encoding/json"
	"fmt"
	"sort"
	"strings"

	"github.com/jamf/regatta/storage/kv"
	dbsm "github.com/lni/dragonboat/v4/statemachine"
)

func init() { register("c13", runC13) }

type c13entry struct {
	idx      uint64
	op       string
	key, val string
	ver      uint64
}

func (e c13entry) coq() string {
	op := "OpOther"
	switch e.op {
	case kv.UpdateOpSet:
		op = "OpSet"
	case kv.UpdateOpDelete:
		op = "OpDelete"
	}
	return fmt.Sprintf("me %d %s %s %s %d", e.idx, op, cBytes([]byte(e.key)), cBytes([]byte(e.val)), e.ver)
}

func oPair(p kv.Pair) string { return oL(oB([]byte(p.Key)), oB([]byte(p.Value)), oU(p.Ver)) }

func oStrs(ss []string) string {
	parts := make([]string, len(ss))
	for i, s := range ss {
		parts[i] = oB([]byte(s))
	}
	return oLs(parts)
}

func c13Snapshot(f dbsm.IConcurrentStateMachine) (dbsm.IConcurrentStateMachine, error) {
	ctx, err := f.PrepareSnapshot()
	if err != nil {
		return nil, err
	}
	// an update applied between prepare and save (dragonboat saves concurrently with Update): not part of the image
	_, _ = f.Update([]dbsm.Entry{{Index: 1 << 40, Cmd: mustJSON(kv.Update{Op: kv.UpdateOpSet, KVPair: kv.Pair{Key: "/after-prepare", Value: "x"}})}})
	var buf bytes.Buffer
	if err := f.SaveSnapshot(ctx, &buf, nil, nil); err != nil {
		return nil, err
	}
	g := kv.NewLFSM()(1, 1)
	// junk that must not survive the recovery
	_, _ = g.Update([]dbsm.Entry{{Index: 1, Cmd: mustJSON(kv.Update{Op: kv.UpdateOpSet, KVPair: kv.Pair{Key: "/junk", Value: "x"}})}})
	if err := g.RecoverFromSnapshot(&buf, nil, nil); err != nil {
		return nil, err
	}
	return g, nil
}

func mustJSON(v any) []byte {
	b, err := json.Marshal(v)
	if err != nil {
		panic(err)
	}
	return b
}

func runC13(args []string) error {
	rf, err := parseFlags("c13", args, nil)
	if err != nil {
		return err
	}
	r := rf.rng()
	n := rf.count(400, 8000)
	sum := &Summary{Engine: "c13", Seed: rf.Seed,
		Rule: "random scenarios over the real kv.LFSM: apply batches of set/delete/unknown-op entries with stale/current/zero/future versions on 14 keys sharing prefixes and directory structure (directories that hold keys only deeper down included), interleaved with get/exists/glob/list/listdir queries and snapshot+recover into a junk-filled instance; a second replica applies the same entries under a different batching; plus the client side (real kv.RaftStore on a NodeHost: what Set/Delete return, the current pair on a mismatch) and glob patterns with escaped metacharacters against path.Match; distinct = distinct scenarios; non-trivial = at least one version mismatch and one successful overwrite"}
	cf := &CasesFile{Requires: []string{"Model.Bytes", "Model.Obs", "Model.SMap", "Model.MetaKV", "Run.C13Run"}, CaseType: "c13case", Check: "c13_check", Show: "c13_model"}
	segs := []string{"a", "b", "tables", "sys", "ü", "a1"}
	var keys []string
	for _, s := range segs {
		keys = append(keys, "/"+s)
	}
	keys = append(keys, "/tables/a", "/tables/b", "/tables/a/lease", "/a/b", "/a/b/c", "/sys/idseq", "/a1/ü", "/tables/b/parts/0", "/sys/x/y/z")
	vals := []string{"", "x", "1", "{\"a\":1}", "zz", "ü<&>"}
	pats := []string{"/tables/*", "/*", "/a/*", "/a*", "/*/a", "/tables/a", "/a/*/c", "*", "/sys/id*", "/tables/*/lease", "/nonexistent/*"}
	dirs := []string{"/", "/a", "/tables", "/a/b", "/tables/a", "/sys", "/none"}
	seen := map[string]bool{}
	hop, hres, hq := sum.hist("ops"), sum.hist("results"), sum.hist("queries")
	for c := 0; c < n; c++ {
		f := kv.NewLFSM()(1, 1)
		ref := map[string]kv.Pair{} // oracle: the property's own semantics
		var maxVer uint64
		idx := uint64(1 + r.Intn(5))
		var steps, obs []string
		var log []c13entry
		mism, over := 0, 0
		descr := []string{}
		nsteps := 3 + r.Intn(8)
		for s := 0; s < nsteps; s++ {
			switch k := r.Intn(10); {
			case k < 5: // batch
				var es []c13entry
				var ents []dbsm.Entry
				for j := 0; j < 1+r.Intn(4); j++ {
					e := c13entry{idx: idx, key: pick(r, keys), val: pick(r, vals)}
					idx += uint64(1 + r.Intn(3))
					switch r.Intn(10) {
					case 0:
						e.op = "noop"
					case 1, 2, 3:
						e.op = kv.UpdateOpDelete
					default:
						e.op = kv.UpdateOpSet
					}
					cur, ok := ref[e.key]
					switch r.Intn(6) {
					case 0:
						e.ver = 0
					case 1:
						e.ver = idx + 100
					case 2:
						if ok && cur.Ver > 0 {
							e.ver = cur.Ver - 1
						}
					default:
						if ok {
							e.ver = cur.Ver
						}
					}
					// entries of the same batch see each other's effects: update the oracle entry by entry
					es = append(es, e)
					ents = append(ents, dbsm.Entry{Index: e.idx, Cmd: mustJSON(kv.Update{Op: e.op, KVPair: kv.Pair{Key: e.key, Value: e.val, Ver: e.ver}})})
					hop.Inc(e.op)
					// oracle: the supplied version must be the current one; a key that does not exist has version 0
					if (ok && cur.Ver != e.ver) || (!ok && e.ver != 0) {
						mism++
					} else {
						switch e.op {
						case kv.UpdateOpSet:
							if ok {
								over++
							}
							ref[e.key] = kv.Pair{Key: e.key, Value: e.val, Ver: e.idx}
						case kv.UpdateOpDelete:
							delete(ref, e.key)
						}
					}
				}
				// the oracle above was advanced with the FINAL state per entry; recompute per-entry expectations precisely
				res, err := f.Update(ents)
				if err != nil {
					return err
				}
				var cs, os []string
				for j, e := range es {
					cs = append(cs, e.coq())
					var p kv.Pair
					if err := json.Unmarshal(res[j].Result.Data, &p); err != nil {
						return err
					}
					os = append(os, oL(oU(res[j].Result.Value), oPair(p)))
					hres.Inc(fmt.Sprint(res[j].Result.Value))
					if res[j].Result.Value == kv.ResultCodeSuccess && e.op == kv.UpdateOpSet {
						if p.Ver <= maxVer {
							sum.violate(c, "successful set handed out a version not larger than every earlier one", map[string]any{"log": fmt.Sprint(append(log, es[:j+1]...))}, fmt.Sprintf("ver %d max %d", p.Ver, maxVer))
						}
					}
					if res[j].Result.Value == kv.ResultCodeSuccess && p.Ver > maxVer {
						maxVer = p.Ver
					}
				}
				log = append(log, es...)
				steps = append(steps, "SBatch "+cList(cs))
				obs = append(obs, oLs(os))
				descr = append(descr, fmt.Sprint(es))
			case k < 9: // query
				var st, ob string
				switch q := r.Intn(7); q {
				case 0, 1:
					key := pick(r, keys)
					p, err := f.Lookup(kv.QueryKey{Key: key})
					st = "SQuery (QGet " + cBytes([]byte(key)) + ")"
					if err != nil {
						ob = oL()
					} else {
						ob = oL(oPair(p.(kv.Pair)))
					}
					hq.Inc("get")
				case 2:
					key := pick(r, keys)
					b, _ := f.Lookup(kv.QueryExist{Key: key})
					st = "SQuery (QExists " + cBytes([]byte(key)) + ")"
					ob = oBool(b.(bool))
					hq.Inc("exists")
				case 3:
					pat := pick(r, pats)
					ps, err := f.Lookup(kv.QueryAll{Pattern: pat})
					if err != nil {
						return err
					}
					var os []string
					for _, p := range ps.([]kv.Pair) {
						os = append(os, oPair(p))
					}
					st = "SQuery (QAll " + cBytes([]byte(pat)) + ")"
					ob = oLs(os)
					hq.Inc("getall")
				case 4:
					pat := pick(r, pats)
					vs, err := f.Lookup(kv.QueryAllValues{Pattern: pat})
					if err != nil {
						return err
					}
					st = "SQuery (QAllValues " + cBytes([]byte(pat)) + ")"
					ob = oStrs(vs.([]string))
					hq.Inc("getallvalues")
				case 5:
					d := pick(r, dirs)
					vs, _ := f.Lookup(kv.QueryList{Path: d})
					st = "SQuery (QList " + cBytes([]byte(d)) + ")"
					ob = oStrs(vs.([]string))
					hq.Inc("list")
					// oracle: a listing names every stored key below the path (by its first component) and nothing that
					// is not stored
					// (not for the root: List("/") names only the keys directly below it, a quirk of pathToTerms the model
					// reproduces; nothing calls it)
					if dd := d; strings.HasPrefix(d, "/") && d != "/" {
						got := map[string]bool{}
						for _, v := range vs.([]string) {
							got[v] = true
						}
						want := map[string]bool{}
						for k := range ref {
							if strings.HasPrefix(k, dd+"/") && len(k) > len(dd)+1 {
								want[strings.Split(k[len(dd)+1:], "/")[0]] = true
							}
						}
						for w := range want {
							if !got[w] {
								sum.violate(c, "a listing drops a stored key below the listed path", map[string]any{"log": fmt.Sprint(log), "steps": append(append([]string{}, descr...), st)}, fmt.Sprintf("List(%q) = %v lacks %q", d, vs, w))
							}
						}
						if _, self := ref[d]; !self {
							for g := range got {
								if !want[g] {
									sum.violate(c, "a listing names something that is not stored below the listed path", map[string]any{"log": fmt.Sprint(log), "steps": append(append([]string{}, descr...), st)}, fmt.Sprintf("List(%q) = %v", d, vs))
								}
							}
						}
					}
				default:
					d := pick(r, dirs)
					vs, _ := f.Lookup(kv.QueryListDir{Path: d})
					st = "SQuery (QListDir " + cBytes([]byte(d)) + ")"
					ob = oStrs(vs.([]string))
					hq.Inc("listdir")
					// oracle: a directory listing names exactly the directories directly below the path that hold a stored
					// key at any depth (not for the root, see List)
					if strings.HasPrefix(d, "/") && d != "/" {
						got := map[string]bool{}
						for _, v := range vs.([]string) {
							got[v] = true
						}
						want := map[string]bool{}
						for k := range ref {
							if strings.HasPrefix(k, d+"/") {
								if parts := strings.Split(k[len(d)+1:], "/"); len(parts) >= 2 {
									want[parts[0]] = true
								}
							}
						}
						for w := range want {
							if !got[w] {
								sum.violate(c, "a directory listing drops a directory that holds a stored key", map[string]any{"log": fmt.Sprint(log), "steps": append(append([]string{}, descr...), st)}, fmt.Sprintf("ListDir(%q) = %v lacks %q", d, vs, w))
							}
						}
						for g := range got {
							if !want[g] {
								sum.violate(c, "a directory listing names a directory that holds no stored key", map[string]any{"log": fmt.Sprint(log), "steps": append(append([]string{}, descr...), st)}, fmt.Sprintf("ListDir(%q) = %v", d, vs))
							}
						}
					}
				}
				steps = append(steps, st)
				obs = append(obs, ob)
				descr = append(descr, st)
			default: // snapshot + recover
				g, err := c13Snapshot(f)
				if err != nil {
					return err
				}
				f = g
				steps = append(steps, "SSnap")
				obs = append(obs, oN(0))
				descr = append(descr, "snapshot+recover")
				hq.Inc("snapshot")
			}
			// oracle: lookups reflect exactly the successful updates (checked after every step, incl. after recovery)
			for _, key := range keys {
				p, err := f.Lookup(kv.QueryKey{Key: key})
				want, ok := ref[key]
				if (err == nil) != ok || (ok && p.(kv.Pair) != want) {
					sum.violate(c, "lookup does not reflect exactly the successful updates", map[string]any{"log": fmt.Sprint(log), "steps": descr}, fmt.Sprintf("key %s: got %v %v want %v %v", key, p, err, want, ok))
				}
			}
		}
		// the whole store holds exactly the successful updates (a recovery replaces, it does not merge); path.Match
		// patterns do not cross '/', so every depth is listed
		{
			var ps []kv.Pair
			for _, pat := range []string{"*", "/*", "/*/*", "/*/*/*", "/*/*/*/*"} {
				if allp, err := f.Lookup(kv.QueryAll{Pattern: pat}); err == nil {
					ps = append(ps, allp.([]kv.Pair)...)
				}
			}
			bad := len(ps) != len(ref)
			for _, p := range ps {
				if w, ok := ref[p.Key]; !ok || w != p {
					bad = true
				}
			}
			if bad {
				sum.violate(c, "the store does not hold exactly the pairs of the successful updates", map[string]any{"log": fmt.Sprint(log), "steps": descr}, fmt.Sprintf("store %v, expected %v", ps, ref))
			}
		}
		// replicas applying the same updates agree: second replica, one entry per apply call
		g := kv.NewLFSM()(1, 2)
		for _, e := range log {
			if _, err := g.Update([]dbsm.Entry{{Index: e.idx, Cmd: mustJSON(kv.Update{Op: e.op, KVPair: kv.Pair{Key: e.key, Value: e.val, Ver: e.ver}})}}); err != nil {
				return err
			}
		}
		a1, _ := f.Lookup(kv.QueryAll{Pattern: "*"})
		all := func(m dbsm.IConcurrentStateMachine) string {
			var out []string
			for _, key := range keys {
				p, err := m.Lookup(kv.QueryKey{Key: key})
				if err == nil {
					out = append(out, fmt.Sprint(p))
				}
			}
			sort.Strings(out)
			return strings.Join(out, ";")
		}
		_ = a1
		if all(f) != all(g) {
			sum.violate(c, "replicas applying the same updates disagree", map[string]any{"log": fmt.Sprint(log)}, all(f)+" vs "+all(g))
		}
		term := fmt.Sprintf("{| m_steps := %s; m_impl := %s |}", cList(steps), oLs(obs))
		d := strings.Join(descr, " ; ")
		cf.Add(term, d)
		if !seen[d] && mism > 0 && over > 0 {
			sum.DistinctNontrivial++
		}
		seen[d] = true
		if len(sum.Samples) < 3 && mism > 0 && over > 0 {
			sum.Samples = append(sum.Samples, d)
		}
	}
	sum.Evaluations = n
	if err := runC13RaftStore(sum); err != nil {
		return err
	}
	if err := runC13Globs(sum); err != nil {
		return err
	}
	if len(sum.Samples) == 0 {
		sum.Samples = append(sum.Samples, cf.Descr[0])
	}
	names, err := cf.Write(rf.Out, "c13_cases", 100)
	if err != nil {
		return err
	}
	sum.CasesFiles = names
	return sum.write(rf.Out, "c13")
}
