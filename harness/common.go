package main

import (
	"flag"
	"fmt"
	"math/rand"
	"os"
)

// Common flags of every case-generating subcommand.
type runFlags struct {
	Seed  int64
	N     int
	Out   string
	Tier  string
	Scale int // budget multiplier (source drift escalation)
}

func parseFlags(name string, args []string, extra func(fs *flag.FlagSet)) (*runFlags, error) {
	fs := flag.NewFlagSet(name, flag.ContinueOnError)
	rf := &runFlags{}
	fs.Int64Var(&rf.Seed, "seed", 1, "PRNG seed")
	fs.IntVar(&rf.N, "n", 0, "number of generated cases (0 = tier default)")
	fs.StringVar(&rf.Out, "out", "", "output directory")
	fs.StringVar(&rf.Tier, "tier", "quick", "quick|thorough")
	fs.IntVar(&rf.Scale, "scale", 1, "budget multiplier")
	if extra != nil {
		extra(fs)
	}
	if err := fs.Parse(args); err != nil {
		return nil, err
	}
	if rf.Out == "" {
		return nil, fmt.Errorf("--out required")
	}
	if err := os.MkdirAll(rf.Out, 0o755); err != nil {
		return nil, err
	}
	if rf.Scale < 1 {
		rf.Scale = 1
	}
	return rf, nil
}

func (rf *runFlags) count(quick, thorough int) int {
	if rf.N > 0 {
		return rf.N
	}
	if rf.Tier == "thorough" {
		return thorough * rf.Scale
	}
	return quick * rf.Scale
}

func (rf *runFlags) rng() *rand.Rand { return rand.New(rand.NewSource(rf.Seed)) }

// SpecViolation is a concrete input on which the implementation's own outputs contradict the property.
type SpecViolation struct {
	Case   int    `json:"case"`
	What   string `json:"what"`
	Input  any    `json:"input"`
	Detail any    `json:"detail,omitempty"`
}

// Summary is written next to every cases file; the check driver merges it into the evidence.
type Summary struct {
	Engine             string          `json:"engine"`
	Seed               int64           `json:"seed"`
	Evaluations        int             `json:"evaluations"`
	DistinctNontrivial int             `json:"distinct_nontrivial"`
	Rule               string          `json:"rule"`
	Hist               map[string]Hist `json:"hist"`
	Samples            []any           `json:"samples"`
	SpecViolations     []SpecViolation `json:"spec_violations"`
	CasesFiles         []string        `json:"cases_files"`
	Notes              []string        `json:"notes,omitempty"`
}

func (s *Summary) hist(name string) Hist {
	if s.Hist == nil {
		s.Hist = map[string]Hist{}
	}
	h, ok := s.Hist[name]
	if !ok {
		h = Hist{}
		s.Hist[name] = h
	}
	return h
}

func (s *Summary) violate(c int, what string, input, detail any) {
	s.SpecViolations = append(s.SpecViolations, SpecViolation{Case: c, What: what, Input: input, Detail: detail})
}

func (s *Summary) write(dir, name string) error {
	if s.SpecViolations == nil {
		s.SpecViolations = []SpecViolation{}
	}
	return writeJSON(dir+"/"+name+".summary.json", s)
}
