package main

import (
	"bytes"
	"context"
	"fmt"
	"math/rand"
	"strings"
	"time"

	"github.com/jamf/regatta/regattapb"
	"github.com/jamf/regatta/regattaserver"
	"github.com/jamf/regatta/storage/table"
	"google.golang.org/grpc/codes"
	"google.golang.org/grpc/status"
)

func init() { register("api", runAPI) }

// gReq mirrors api_req of Model/Api.v.
type gReq struct {
	Kind    int // 0 range 1 iterate 2 put 3 delete 4 txn
	Table   []byte
	R       gRange
	Lin     bool
	Filters [4]int64
	K, V    []byte
	End     []byte
	Prev    bool
	Count   bool
	Cmps    []gCmp
	Succ    []gOp
	Fail    []gOp
}

func (q gReq) coq() string {
	t := cBytes(q.Table)
	fl := fmt.Sprintf("(flt %s %s %s %s)", cZ(q.Filters[0]), cZ(q.Filters[1]), cZ(q.Filters[2]), cZ(q.Filters[3]))
	switch q.Kind {
	case 0:
		return fmt.Sprintf("QRange %s %s %s %s", t, q.R.coq(), cBool(q.Lin), fl)
	case 1:
		return fmt.Sprintf("QIterate %s %s %s %s", t, q.R.coq(), cBool(q.Lin), fl)
	case 2:
		return fmt.Sprintf("QPut %s %s %s %s", t, cBytes(q.K), cBytes(q.V), cBool(q.Prev))
	case 3:
		return fmt.Sprintf("QDelete %s %s %s %s %s", t, cBytes(q.K), cOptBytes(q.End), cBool(q.Prev), cBool(q.Count))
	}
	return fmt.Sprintf("QTxn %s %s %s %s", t, coqCmps(q.Cmps), coqOps(q.Succ), coqOps(q.Fail))
}

func shortB(b []byte) string {
	if len(b) > 24 {
		return fmt.Sprintf("<%d bytes of %q...>", len(b), b[:4])
	}
	return fmt.Sprintf("%q", b)
}

func (q gReq) String() string {
	switch q.Kind {
	case 0, 1:
		n := "Range"
		if q.Kind == 1 {
			n = "IterateRange"
		}
		return fmt.Sprintf("%s(%s key=%s end=%s limit=%d keys_only=%v count_only=%v lin=%v filters=%v)", n, shortB(q.Table), shortB(q.R.Key), shortB(q.R.End), q.R.Limit, q.R.KeysOnly, q.R.CountOnly, q.Lin, q.Filters)
	case 2:
		return fmt.Sprintf("Put(%s %s=%s prev=%v)", shortB(q.Table), shortB(q.K), shortB(q.V), q.Prev)
	case 3:
		return fmt.Sprintf("DeleteRange(%s key=%s end=%s prev=%v count=%v)", shortB(q.Table), shortB(q.K), shortB(q.End), q.Prev, q.Count)
	}
	return fmt.Sprintf("Txn(%s if%v then%v else%v)", shortB(q.Table), q.Cmps, q.Succ, q.Fail)
}

func (q gReq) rangePB() *regattapb.RangeRequest {
	return &regattapb.RangeRequest{Table: q.Table, Key: q.R.Key, RangeEnd: q.R.End, Limit: q.R.Limit, KeysOnly: q.R.KeysOnly, CountOnly: q.R.CountOnly,
		Linearizable: q.Lin, MinModRevision: q.Filters[0], MaxModRevision: q.Filters[1], MinCreateRevision: q.Filters[2], MaxCreateRevision: q.Filters[3]}
}

func opsPB(ops []gOp) []*regattapb.RequestOp {
	var out []*regattapb.RequestOp
	for _, o := range ops {
		out = append(out, o.pb())
	}
	return out
}

func errObs(err error) string { return oL(oN(0), oN(int64(status.Code(err)))) }

func asRangeOp(r *regattapb.RangeResponse) *regattapb.ResponseOp_Range {
	return &regattapb.ResponseOp_Range{Kvs: r.Kvs, More: r.More, Count: r.Count}
}

// exec sends one request to the real KVServer; returns the observable, the revision the response carries (0: none) and
// whether a handler panicked.
func (q gReq) exec(srv *regattaserver.KVServer) (obs string, rev uint64, panicked any) {
	defer func() {
		if p := recover(); p != nil {
			panicked = p
			obs = oL(oN(-1))
		}
	}()
	ctx, cancel := context.WithTimeout(context.Background(), 20*time.Second)
	defer cancel()
	switch q.Kind {
	case 0:
		r, err := srv.Range(ctx, q.rangePB())
		if err != nil {
			return errObs(err), 0, nil
		}
		return oL(oN(1), oRange(asRangeOp(r))), 0, nil
	case 1:
		st := &collectStream{}
		if err := srv.IterateRange(q.rangePB(), st); err != nil {
			return errObs(err), 0, nil
		}
		parts := make([]string, len(st.msgs))
		for i, m := range st.msgs {
			parts[i] = oRange(asRangeOp(m))
		}
		return oL(oN(2), oLs(parts)), 0, nil
	case 2:
		r, err := srv.Put(ctx, &regattapb.PutRequest{Table: q.Table, Key: q.K, Value: q.V, PrevKv: q.Prev})
		if err != nil {
			return errObs(err), 0, nil
		}
		prev := oL()
		if r.PrevKv != nil {
			prev = oL(oKV(r.PrevKv))
		}
		return oL(oN(3), prev, oU(r.GetHeader().GetRevision())), r.GetHeader().GetRevision(), nil
	case 3:
		r, err := srv.DeleteRange(ctx, &regattapb.DeleteRangeRequest{Table: q.Table, Key: q.K, RangeEnd: q.End, PrevKv: q.Prev, Count: q.Count})
		if err != nil {
			return errObs(err), 0, nil
		}
		return oL(oN(4), oN(r.Deleted), oKVs(r.PrevKvs), oU(r.GetHeader().GetRevision())), r.GetHeader().GetRevision(), nil
	}
	req := &regattapb.TxnRequest{Table: q.Table, Success: opsPB(q.Succ), Failure: opsPB(q.Fail)}
	for _, c := range q.Cmps {
		req.Compare = append(req.Compare, c.pb())
	}
	r, err := srv.Txn(ctx, req)
	if err != nil {
		return errObs(err), 0, nil
	}
	return oL(oN(5), oBool(r.Succeeded), oResps(r.Responses), oU(r.GetHeader().GetRevision())), r.GetHeader().GetRevision(), nil
}

func (q gReq) isWrite() bool {
	if q.Kind == 2 || q.Kind == 3 {
		return true
	}
	if q.Kind != 4 {
		return false
	}
	for _, o := range append(append([]gOp{}, q.Succ...), q.Fail...) {
		if o.Kind != 0 {
			return true
		}
	}
	return false
}

// runAPI: request sequences (mostly valid, a malformed stream mixed in) against a real regattaserver.KVServer over a real
// storage.Engine (real dragonboat NodeHost, real table manager, real state machines on Pebble/MemFS), two tables per
// case. The model (Model/Api.v: validators + table layer + state machine over encoded keys) and the plain-map
// specification answer the same sequence; the only thing taken from the implementation is the log position of each
// proposal (it depends on dragonboat's internal entries), which the Go-side oracle checks: non-zero, strictly
// increasing per table, equal to the table's applied index right after the acknowledgement.
func runAPI(args []string) error {
	rf, err := parseFlags("api", args, nil)
	if err != nil {
		return err
	}
	r := rf.rng()
	sum := &Summary{Engine: "api", Seed: rf.Seed, Rule: "every request sequence sent to KVServer over a real Engine: responses (status class, pairs, counts, more, previous pairs, succeeded flag, revisions) equal those of the API model and of the plain-map specification; revisions are log positions"}
	node, err := newC05Node("apieng", 0, 0, 0, nil)
	if err != nil {
		return err
	}
	defer func() {
		done := make(chan struct{})
		go func() { _ = node.e.Close(); close(done) }()
		select {
		case <-done:
		case <-time.After(20 * time.Second):
		}
	}()
	srv := &regattaserver.KVServer{Storage: node.e}
	cf := &CasesFile{Requires: []string{"Model.Bytes", "Model.Obs", "Model.Cmd", "Model.Validate", "Model.Api", "Run.FsmRun", "Run.ApiRun"},
		CaseType: "acase", Check: "api_check", Show: "api_model", Spec: "api_spec_check", SpecShow: "api_spec"}
	hk := sum.hist("requests")
	ho := sum.hist("outcomes")
	hm := sum.hist("malformed")
	ncases := rf.count(10, 70)
	seen := map[string]bool{}
	bigKey := func(n int) []byte { return bytes.Repeat([]byte{'k'}, n) }
	for c := 0; c < ncases; c++ {
		ta, tb := fmt.Sprintf("a%d", c), fmt.Sprintf("b%d", c)
		ats := map[string]table.ActiveTable{}
		for _, n := range []string{ta, tb} {
			if _, err := node.e.CreateTable(n); err != nil {
				return err
			}
			at, err := node.waitTable(n)
			if err != nil {
				return err
			}
			ats[n] = at
		}
		g := newFsmGen(r, sum.hist("commands"))
		lastRev := map[string]uint64{}
		var reqs []string
		var obs []string
		var descr []string
		nreq := 25 + r.Intn(30)
		mk := func() gReq {
			q := gReq{Table: []byte(ta)}
			if r.Intn(4) == 0 {
				q.Table = []byte(tb)
			}
			switch w := r.Intn(20); {
			case w < 5:
				q.Kind, q.K, q.V, q.Prev = 2, g.key(), g.val(), r.Intn(2) == 0
			case w < 8:
				q.Kind, q.K, q.End, q.Prev, q.Count = 3, g.key(), g.end(50), r.Intn(2) == 0, r.Intn(2) == 0
			case w < 13:
				t := g.txn()
				q.Kind, q.Cmps, q.Succ, q.Fail = 4, t.Cmps, t.Succ, t.Fail
				if r.Intn(4) == 0 { // read-only transactions take the read path
					ro := func(ops []gOp) []gOp {
						var out []gOp
						for _, o := range ops {
							if o.Kind == 0 {
								out = append(out, o)
							}
						}
						return out
					}
					q.Succ, q.Fail = ro(q.Succ), ro(q.Fail)
					if len(q.Succ) == 0 {
						q.Succ = []gOp{{Kind: 0, R: g.rng()}}
					}
				}
				if r.Intn(10) == 0 { // a write transaction whose executed branch may be empty
					q.Succ = nil
				}
				if r.Intn(5) == 0 { // predicate-free, put-only, asking for the previous pairs (keys repeat)
					q.Cmps, q.Fail, q.Succ = nil, nil, nil
					for i := 2 + r.Intn(3); i > 0; i-- {
						q.Succ = append(q.Succ, gOp{Kind: 1, K: g.key(), V: g.val(), Prev: true})
					}
				}
			case w < 18:
				q.Kind, q.R, q.Lin = 0, g.rng(), r.Intn(2) == 0
			default:
				q.Kind, q.R, q.Lin = 1, g.rng(), r.Intn(2) == 0
				if r.Intn(2) == 0 { // a streamed read over everything, cut by a limit
					q.R.Key, q.R.End, q.R.Limit = []byte{0}, []byte{0}, int64(1+r.Intn(3))
				}
			}
			// the malformed stream
			if r.Intn(7) == 0 {
				switch m := r.Intn(12); m {
				case 0:
					q.Table = nil
					hm.Inc("no table")
				case 1:
					q.Table = []byte("nosuch" + ta)
					hm.Inc("unknown table")
				case 2:
					q.K, q.R.Key = nil, nil
					hm.Inc("no key")
				case 3:
					n := 1023 + r.Intn(3)
					q.K, q.R.Key = bigKey(n), bigKey(n)
					hm.Inc(fmt.Sprintf("key of %d bytes", n))
				case 4:
					n := 1023 + r.Intn(3)
					q.End, q.R.End = bigKey(n), bigKey(n)
					hm.Inc(fmt.Sprintf("range end of %d bytes", n))
				case 5:
					q.V = bytes.Repeat([]byte{'v'}, 2*1024*1024+1)
					hm.Inc("value of 2 MiB + 1")
				case 6:
					q.R.Limit = -1 - int64(r.Intn(3))
					hm.Inc("negative limit")
				case 7:
					q.R.KeysOnly, q.R.CountOnly = true, true
					hm.Inc("keys_only and count_only")
				case 8:
					q.Filters[r.Intn(4)] = 1 + int64(r.Intn(5))
					hm.Inc("revision filter")
				case 9:
					// nested operation over a limit
					bad := []gOp{{Kind: 1, K: nil, V: []byte("x")}, {Kind: 1, K: bigKey(1025), V: []byte("x")}, {Kind: 2, K: nil}, {Kind: 2, K: bigKey(1025)},
						{Kind: 2, K: []byte("a"), End: bigKey(1025)}, {Kind: 0, R: gRange{Key: bigKey(1025)}}, {Kind: 0, R: gRange{Key: []byte("a"), End: bigKey(1025)}},
						{Kind: 1, K: []byte("a"), V: bytes.Repeat([]byte{'v'}, 2*1024*1024+1)}, {Kind: 1, K: bigKey(1024), V: []byte("fits")}}[r.Intn(9)]
					if q.Kind != 4 {
						q = gReq{Kind: 4, Table: q.Table}
					}
					if r.Intn(2) == 0 {
						q.Succ = append(q.Succ, bad)
					} else {
						q.Fail = append(q.Fail, bad)
					}
					hm.Inc("nested operation at or over a limit")
				case 10:
					q.V = bytes.Repeat([]byte{byte(r.Intn(256))}, 100*1024)
					hm.Inc("value of 100 KiB (valid)")
				default:
					q.R.Key, q.R.End = []byte{0}, []byte{0}
					q.K, q.End = []byte{0}, []byte{0}
					hm.Inc("wildcard bounds")
				}
			}
			return q
		}
		run := func(q gReq) error {
			o, rev, p := q.exec(srv)
			in := map[string]any{"tables": []string{ta, tb}, "requests_before": append([]string{}, descr...), "request": q.String()}
			if p != nil {
				sum.violate(c, "a request terminated its handler with a panic", in, fmt.Sprint(p))
			}
			sum.Evaluations++
			hk.Inc([]string{"range", "iterate", "put", "delete", "txn"}[q.Kind])
			if strings.HasPrefix(o, "OL [ON 0%Z") {
				ho.Inc("refused: " + o)
			} else {
				ho.Inc("answered")
			}
			if rev != 0 {
				tn := string(q.Table)
				if rev <= lastRev[tn] {
					sum.violate(c, "an acknowledged mutation reports a revision that is not larger than that of an earlier one", in, fmt.Sprintf("%d after %d", rev, lastRev[tn]))
				}
				lastRev[tn] = rev
				if at, ok := ats[tn]; ok {
					ctx, cancel := context.WithTimeout(context.Background(), 10*time.Second)
					ir, err := at.LocalIndex(ctx, true)
					cancel()
					if err != nil {
						return err
					}
					if ir.Index != rev {
						sum.violate(c, "the revision of an acknowledged mutation is not its position in the table's log", in, fmt.Sprintf("revision %d, applied index %d", rev, ir.Index))
					}
				}
			} else if q.isWrite() && !strings.HasPrefix(o, "OL [ON 0%Z") && !strings.HasPrefix(o, "OL [ON -1") {
				sum.violate(c, "an acknowledged mutation reports revision 0", in, o)
			}
			reqs = append(reqs, fmt.Sprintf("(%d, %s)", rev, q.coq()))
			obs = append(obs, o)
			descr = append(descr, q.String())
			return nil
		}
		for i := 0; i < nreq; i++ {
			if err := run(mk()); err != nil {
				return err
			}
		}
		// the content of both tables at the end, in one message and in several
		for _, n := range []string{ta, tb} {
			if err := run(gReq{Kind: 0, Table: []byte(n), R: gRange{Key: []byte{0}, End: []byte{0}}, Lin: true}); err != nil {
				return err
			}
			if err := run(gReq{Kind: 1, Table: []byte(n), R: gRange{Key: []byte{0}, End: []byte{0}}, Lin: true}); err != nil {
				return err
			}
		}
		term := fmt.Sprintf("{| a_tables := [%s; %s]; a_reqs := %s; a_impl := %s |}", cBytes([]byte(ta)), cBytes([]byte(tb)), cList(reqs), oLs(obs))
		cf.Add(term, strings.Join(descr, " ; "))
		key := strings.Join(descr, ";")
		if !seen[key] {
			seen[key] = true
			sum.DistinctNontrivial++
		}
		if c < 2 {
			sum.Samples = append(sum.Samples, map[string]any{"requests": descr[:min(len(descr), 6)], "responses": obs[:min(len(obs), 6)]})
		}
	}
	names, err := cf.Write(rf.Out, "api", 4)
	if err != nil {
		return err
	}
	sum.CasesFiles = names
	_ = rand.Int
	_ = codes.OK
	return sum.write(rf.Out, "api")
}
