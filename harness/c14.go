package main

import (
	"bytes"
	"context"
	"encoding/json"
	"errors"
	"fmt"
	"io"
	"os"
	"sort"
	"strings"
	"sync"
	"time"

	pvfs "github.com/cockroachdb/pebble/vfs"
	"github.com/jamf/regatta/regattapb"
	"github.com/jamf/regatta/replication/snapshot"
	serrors "github.com/jamf/regatta/storage/errors"
	"github.com/jamf/regatta/storage/kv"
	"github.com/jamf/regatta/storage/table"
	"github.com/jamf/regatta/storage/table/fsm"
	"github.com/lni/dragonboat/v4"
	dbsm "github.com/lni/dragonboat/v4/statemachine"
)

func init() { register("c14", runC14) }

type catCall struct {
	kind int // 0 create, 1 delete, 2 list
	name int
}

var catNames = []string{"alpha", "beta", "gamma"}

// runCatSchedule: managers (actors 0..k-1) run their calls over one scheduler-controlled store.
type createdAt struct {
	id          uint64
	start, done int // positions in the schedule: first store operation released / call finished
}

// lastCatProbe: set by runCatSchedule when the final listing and the lookups disagree.
var lastCatProbe string

func runCatSchedule(scripts map[int][]catCall, k int, choose func(parked []int, step int) int, batch func(step int) bool) (acts, results, trace []string, created []createdAt, err error) {
	catProbe := ""
	var probeMu sync.Mutex
	defer func() { probeMu.Lock(); lastCatProbe = catProbe; probeMu.Unlock() }()
	store := newSchedStore()
	// Restore (kinds 3 and 4, manager 0 only) needs a real NodeHost: it starts the recovery shard and loads the stream
	// between its store operations
	var nh *dragonboat.NodeHost
	var members map[uint64]string
	for _, cs := range scripts {
		for _, c := range cs {
			if c.kind >= 3 && nh == nil {
				nh, members, err = startNodeHost()
				if err != nil {
					return nil, nil, nil, nil, err
				}
				defer nh.Close()
			}
		}
	}
	var actors []int
	for a := 0; a < k; a++ {
		actors = append(actors, a)
	}
	sch := newScheduler(store, actors)
	mgr := map[int]*table.Manager{}
	for _, a := range actors {
		cfg := table.Config{NodeID: uint64(a + 1), Table: table.TableConfig{BlockCacheSize: 1024, TableCacheSize: 1024}}
		if a == 0 && nh != nil {
			cfg.Table = table.TableConfig{HeartbeatRTT: 1, ElectionRTT: 5, FS: pvfs.NewMem(), BlockCacheSize: 1024, TableCacheSize: 1024}
			cfg.Meta = table.MetaConfig{HeartbeatRTT: 1, ElectionRTT: 5}
			mgr[a] = table.NewManager(nh, members, sch.gates[a], cfg)
			continue
		}
		mgr[a] = table.NewManager(nil, nil, sch.gates[a], cfg)
	}
	for _, a := range actors {
		a := a
		if len(scripts[a]) == 0 {
			continue
		}
		sch.start(a, func(done func(string)) {
			for _, c := range scripts[a] {
				switch c.kind {
				case 0:
					t, e := mgr[a].VerifCreateTable(catNames[c.name])
					switch {
					case e == nil:
						done(fmt.Sprintf("created-%d", t.ClusterID))
					case errors.Is(e, serrors.ErrTableExists):
						done("exists")
					default:
						done("failed")
					}
				case 1:
					e := mgr[a].DeleteTable(catNames[c.name])
					switch {
					case e == nil:
						done("deleted")
					case errors.Is(e, serrors.ErrTableNotFound):
						done("notfound")
					default:
						done("failed")
					}
				case 3, 4:
					sf, e := c14Stream([][2]string{{"ra", "1"}, {"rb", "2"}, {"rc", "3"}})
					if e != nil {
						done("failed")
						continue
					}
					var rd io.Reader = sf
					if c.kind == 4 {
						rd = &failingReader{r: sf, n: 2}
					}
					e = mgr[a].Restore(catNames[c.name], rd)
					_ = sf.Close()
					_ = os.Remove(sf.Path())
					switch {
					case e == nil:
						var id uint64
						if p, le := store.lookup(kv.QueryKey{Key: "/tables/" + catNames[c.name]}); le == nil {
							var t table.Table
							if json.Unmarshal([]byte(p.(kv.Pair).Value), &t) == nil {
								id = t.ClusterID
							}
						}
						done(fmt.Sprintf("restored-%d", id))
					case errors.Is(e, serrors.ErrTableNotFound):
						done("notfound")
					default:
						done("failed")
					}
				default:
					ts, e := mgr[a].GetTables()
					if e != nil {
						done("failed")
						continue
					}
					var parts []string
					for _, t := range ts {
						for i, n := range catNames {
							if n == t.Name {
								parts = append(parts, fmt.Sprintf("%d=%d", i, t.ClusterID))
							}
						}
					}
					// everybody else is parked at a gate while this call runs: the listing must name exactly the tables
					// whose record exists right now
					for _, n := range catNames {
						_, ge := store.lookup(kv.QueryKey{Key: "/tables/" + n})
						listed := false
						for _, t := range ts {
							listed = listed || t.Name == n
						}
						if listed != (ge == nil) {
							probeMu.Lock()
							catProbe = fmt.Sprintf("a listing by manager %d: table %q listed=%v, record lookup error=%v", a, n, listed, ge)
							probeMu.Unlock()
						}
					}
					sort.Strings(parts)
					done("list:" + strings.Join(parts, ","))
				}
			}
		})
	}
	callIdx := map[int]int{}
	opIdx := map[int]int{}
	startAt := map[int]int{}
	step := 0
	onDone := func(actor int, result string) {
		results = append(results, result)
		trace = append(trace, fmt.Sprintf("m%d:%s", actor, result))
		if strings.HasPrefix(result, "created-") {
			var id uint64
			fmt.Sscanf(result, "created-%d", &id)
			created = append(created, createdAt{id, startAt[actor], step})
		}
		if strings.HasPrefix(result, "restored-") {
			var id uint64
			fmt.Sscanf(result, "restored-%d", &id)
			created = append(created, createdAt{id, startAt[actor], step})
		}
		if c := scripts[actor][callIdx[actor]]; c.kind == 4 && opIdx[actor] == 4 && result == "failed" {
			// the stream broke off after the recovery shard had been registered (a lost compare-and-set at the 4th
			// operation ends the call in the model by itself; the extra action is then a no-op)
			acts = append(acts, fmt.Sprintf("AFail %d%%nat", actor))
		}
		callIdx[actor]++
		opIdx[actor] = 0
	}
	for {
		sch.settle(onDone)
		parked := sch.parked()
		if len(parked) == 0 {
			break
		}
		a := parked[choose(parked, step)%len(parked)]
		step++
		ev := sch.waiting[a]
		c := scripts[a][callIdx[a]]
		if opIdx[a] == 0 {
			startAt[a] = step
			switch c.kind {
			case 0:
				acts = append(acts, fmt.Sprintf("ACreate %d%%nat %d", a, c.name))
			case 1:
				acts = append(acts, fmt.Sprintf("ADelete %d%%nat %d", a, c.name))
			case 3, 4:
				acts = append(acts, fmt.Sprintf("ARestore %d%%nat %d", a, c.name))
			default:
				acts = append(acts, fmt.Sprintf("AList %d%%nat", a))
			}
		} else {
			acts = append(acts, fmt.Sprintf("AStep %d%%nat", a))
		}
		opIdx[a]++
		trace = append(trace, fmt.Sprintf("m%d.%s(%s)", a, ev.op, strings.TrimPrefix(ev.key, "/tables/")))
		// two writes that are both waiting may be committed together and reach the state machine in ONE Update call
		other := -1
		if (ev.op == "set" || ev.op == "delete") && batch != nil && batch(step) {
			for _, b := range parked {
				if o := sch.waiting[b].op; b != a && (o == "set" || o == "delete") {
					other = b
					break
				}
			}
		}
		if other < 0 {
			sch.release(a)
			continue
		}
		store.beginBatch(2)
		sch.release(a)
		<-store.enq
		acts = append(acts, fmt.Sprintf("AStep %d%%nat", other))
		opIdx[other]++
		trace = append(trace, fmt.Sprintf("m%d.%s(%s)[same-batch]", other, sch.waiting[other].op, strings.TrimPrefix(sch.waiting[other].key, "/tables/")))
		sch.release(other)
		<-store.enq
		store.deliver(0)
		sch.running--
		sch.settle(onDone)
		sch.running++
		store.deliver(1)
	}
	// when everybody is done: the listing and the lookups describe the same set of tables
	{
		probe := table.NewManager(nil, nil, &gate{id: 99, store: store}, table.Config{NodeID: 99, Table: table.TableConfig{BlockCacheSize: 1024, TableCacheSize: 1024}})
		if ts, e := probe.GetTables(); e == nil {
			listed := map[string]bool{}
			for _, t := range ts {
				listed[t.Name] = true
			}
			for _, n := range catNames {
				// (Manager.GetTable is a Get of the table's record; without a NodeHost it cannot build the handle)
				_, ge := store.lookup(kv.QueryKey{Key: "/tables/" + n})
				if listed[n] != (ge == nil) {
					probeMu.Lock()
					catProbe = fmt.Sprintf("table %q: listed=%v, record lookup error=%v", n, listed[n], ge)
					probeMu.Unlock()
				}
			}
		}
	}
	return acts, results, trace, created, nil
}

func catResultObs(results []string) string {
	var rs []string
	for _, x := range results {
		switch {
		case strings.HasPrefix(x, "created-"):
			var id int64
			fmt.Sscanf(x, "created-%d", &id)
			rs = append(rs, oL(oN(1), oN(id)))
		case strings.HasPrefix(x, "restored-"):
			var id int64
			fmt.Sscanf(x, "restored-%d", &id)
			rs = append(rs, oL(oN(7), oN(id)))
		case x == "exists":
			rs = append(rs, oN(2))
		case x == "failed":
			rs = append(rs, oN(3))
		case x == "deleted":
			rs = append(rs, oN(4))
		case x == "notfound":
			rs = append(rs, oN(5))
		case strings.HasPrefix(x, "list:"):
			parts := []string{oN(6)}
			body := strings.TrimPrefix(x, "list:")
			if body != "" {
				for _, p := range strings.Split(body, ",") {
					var n, id int64
					fmt.Sscanf(p, "%d=%d", &n, &id)
					parts = append(parts, oL(oN(n), oN(id)))
				}
			}
			rs = append(rs, oLs(parts))
		}
	}
	return oLs(rs)
}

func runC14(args []string) error {
	rf, err := parseFlags("c14", args, nil)
	if err != nil {
		return err
	}
	r := rf.rng()
	sum := &Summary{Engine: "c14", Seed: rf.Seed,
		Rule: "(a) real table.Manager createTable/DeleteTable/GetTables and Restore (complete and interrupted streams, on a real NodeHost) for 2-3 managers over one metadata store with the real kv.LFSM compare-and-set semantics, every store operation released by a scheduler (two waiting writes optionally applied by ONE LFSM.Update call): all interleavings of two creations (same name, different names) and create/delete pairs enumerated, plus seeded random schedules of 1-4 calls per manager over three names; oracle: ids of successful creations never repeat and increase, at most one of racing creations of one name succeeds; (b) real diffTables on enumerated catalogue/running-set combinations; (c) a real Manager on a single-node dragonboat NodeHost: create, fill, delete, recreate under the same name, restore, tables with '/' in the name: new tables empty, other tables untouched, ids never reused; distinct = distinct (scripts, schedule); non-trivial = operations of two managers interleave inside a call"}
	cf := &CasesFile{Requires: []string{"Model.Bytes", "Model.Obs", "Model.Catalogue", "Run.C14Run"}, CaseType: "c14case", Check: "c14_check", Show: "c14_model"}
	hk := sum.hist("schedules")
	seen := map[string]bool{}
	var batching func(int) bool
	record := func(scripts map[int][]catCall, k int, choose func([]int, int) int, kind string) error {
		acts, results, trace, created, err := runCatSchedule(scripts, k, choose, batching)
		if err != nil {
			return err
		}
		d := strings.Join(trace, " ")
		if seen[d] {
			return nil
		}
		seen[d] = true
		if lastCatProbe != "" {
			sum.violate(sum.Evaluations+1, "listing and lookup do not describe the same tables", map[string]any{"schedule": d}, lastCatProbe)
		}
		cf.Add(fmt.Sprintf("{| g_managers := %d%%nat; g_acts := %s; g_impl := %s |}", k, cList(acts), catResultObs(results)), d)
		hk.Inc(kind)
		sum.Evaluations++
		last, switches := "", 0
		for _, t := range trace {
			if strings.Contains(t, ".") {
				n := strings.SplitN(t, ".", 2)[0]
				if last != "" && n != last {
					switches++
				}
				last = n
			}
		}
		if switches >= 2 {
			sum.DistinctNontrivial++
			if len(sum.Samples) < 3 {
				sum.Samples = append(sum.Samples, d)
			}
		}
		// oracles
		{
			// a table cannot be deleted more often than it came into existence (created, or restored into existence)
			made, gone := map[string]int{}, map[string]int{}
			cur := map[int]string{}
			for _, t := range trace {
				var a int
				var rest string
				if n, _ := fmt.Sscanf(t, "m%d.", &a); n == 1 && strings.Contains(t, ".") && !strings.Contains(t, ":") {
					rest = t[strings.Index(t, ".")+1:]
					if i := strings.Index(rest, "("); i >= 0 {
						key := strings.TrimSuffix(strings.SplitN(rest[i+1:], ")", 2)[0], "")
						if !strings.HasPrefix(key, "sys/") && key != "*" && key != "" {
							cur[a] = key
						}
					}
					continue
				}
				if n, _ := fmt.Sscanf(t, "m%d:", &a); n == 1 {
					res := t[strings.Index(t, ":")+1:]
					switch {
					case strings.HasPrefix(res, "created-"):
						made[cur[a]]++
					case res == "deleted":
						gone[cur[a]]++
					}
				}
			}
			// a restore registers the table's record before it loads the stream: every restore call may bring the table
			// into existence once, whether or not it completes
			for _, cs := range scripts {
				for _, cc := range cs {
					if cc.kind >= 3 {
						made[catNames[cc.name]]++
					}
				}
			}
			for name, g := range gone {
				if g > made[name] {
					sum.violate(sum.Evaluations, "a table is reported deleted more often than it came into existence", map[string]any{"schedule": d, "table": name}, fmt.Sprintf("%d successful deletions, %d creations/restores", g, made[name]))
				}
			}
		}
		ids := map[uint64]bool{}
		for i, c := range created {
			if ids[c.id] {
				sum.violate(sum.Evaluations, "a shard id was assigned to two tables", map[string]any{"schedule": d}, fmt.Sprint(created))
			}
			ids[c.id] = true
			if c.id <= table.VerifTableIDsRangeStart {
				sum.violate(sum.Evaluations, "a shard id at or below the reserved range start was assigned", map[string]any{"schedule": d}, fmt.Sprint(created))
			}
			// a creation that STARTED after another had finished must get a greater id (overlapping creations are unordered)
			for _, e := range created[:i] {
				if e.done < c.start && c.id <= e.id {
					sum.violate(sum.Evaluations, "a later creation was assigned an id not greater than an earlier one", map[string]any{"schedule": d}, fmt.Sprint(created))
				}
			}
		}
		return nil
	}
	pairs := [][2]catCall{{{0, 0}, {0, 0}}, {{0, 0}, {0, 1}}, {{0, 0}, {1, 0}}, {{1, 0}, {1, 0}}, {{0, 0}, {2, 0}}}
	for _, p := range pairs {
		for _, pre := range [][]catCall{nil, {{0, 0}}, {{0, 1}}} {
			for bits := 0; bits < 256; bits++ {
				b := bits
				scripts := map[int][]catCall{0: append(append([]catCall{}, pre...), p[0]), 1: {p[1]}}
				if err := record(scripts, 2, func(parked []int, step int) int { return (b >> uint(step%8)) & 1 }, "exhaustive-2-managers"); err != nil {
					return err
				}
				batching = func(int) bool { return true }
				err := record(scripts, 2, func(parked []int, step int) int { return (b >> uint(step%8)) & 1 }, "exhaustive-2-managers, waiting writes applied in one batch")
				batching = nil
				if err != nil {
					return err
				}
			}
		}
	}
	// Restore interleaved with the other managers' creations, deletions and listings (a real NodeHost per case)
	nrest := 20
	if rf.Tier == "thorough" {
		nrest = 150 * rf.Scale
	}
	for i := 0; i < nrest; i++ {
		k := 2 + r.Intn(2)
		scripts := map[int][]catCall{}
		var cs0 []catCall
		if r.Intn(2) == 0 {
			cs0 = append(cs0, catCall{kind: 0, name: 0})
		}
		if r.Intn(2) == 0 {
			cs0 = append(cs0, catCall{kind: 4, name: 0}) // an attempt that breaks off
		}
		cs0 = append(cs0, catCall{kind: 3, name: 0})
		if r.Intn(3) == 0 {
			cs0 = append(cs0, catCall{kind: 3, name: r.Intn(2)})
		}
		scripts[0] = cs0
		for a := 1; a < k; a++ {
			var cs []catCall
			for j := 0; j < 1+r.Intn(3); j++ {
				cs = append(cs, catCall{kind: pick(r, []int{0, 0, 1, 1, 2}), name: r.Intn(2)})
			}
			scripts[a] = cs
		}
		if err := record(scripts, k, func(parked []int, step int) int { return r.Intn(len(parked)) }, "random with restores"); err != nil {
			return err
		}
	}
	n := rf.count(150, 4000)
	for i := 0; i < n; i++ {
		k := 2 + r.Intn(2)
		scripts := map[int][]catCall{}
		for a := 0; a < k; a++ {
			var cs []catCall
			for j := 0; j < 1+r.Intn(4); j++ {
				cs = append(cs, catCall{kind: pick(r, []int{0, 0, 0, 1, 1, 2}), name: r.Intn(3)})
			}
			scripts[a] = cs
		}
		kind := "random"
		if i%2 == 1 {
			batching = func(int) bool { return r.Intn(2) == 0 }
			kind = "random, some waiting writes applied in one batch"
		}
		err := record(scripts, k, func(parked []int, step int) int { return r.Intn(len(parked)) }, kind)
		batching = nil
		if err != nil {
			return err
		}
	}
	names, err := cf.Write(rf.Out, "c14_cases", 200)
	if err != nil {
		return err
	}

	// ---- (b) diffTables ----
	df := &CasesFile{Requires: []string{"Model.Bytes", "Model.Obs", "Model.Catalogue", "Run.C14Run"}, CaseType: "dcase", Check: "d_check", Show: "d_model"}
	idPool := []uint64{0, 1, 9999, 10000, 10001, 10002, 10003}
	nd := rf.count(300, 3000)
	for i := 0; i < nd; i++ {
		tabs := map[string]table.Table{}
		var ct []string
		for j := 0; j < r.Intn(4); j++ {
			t := table.Table{Name: fmt.Sprintf("t%d", j), ClusterID: pick(r, idPool), RecoverID: pick(r, []uint64{0, 0, 10001, 10003, 10004})}
			tabs[t.Name] = t
			ct = append(ct, fmt.Sprintf("{| t_cluster := %d; t_recover := %d |}", t.ClusterID, t.RecoverID))
		}
		var run []dragonboat.ShardInfo
		var cr []string
		for j := 0; j < r.Intn(5); j++ {
			id := pick(r, idPool)
			run = append(run, dragonboat.ShardInfo{ShardID: id})
			cr = append(cr, cN(id))
		}
		st, sp := table.VerifDiffTables(tabs, run)
		var a, b []uint64
		for id := range st {
			a = append(a, id)
		}
		b = append(b, sp...)
		sort.Slice(a, func(i, j int) bool { return a[i] < a[j] })
		sort.Slice(b, func(i, j int) bool { return b[i] < b[j] })
		var ao, bo []string
		for _, x := range a {
			ao = append(ao, oU(x))
		}
		for _, x := range b {
			bo = append(bo, oU(x))
		}
		df.Add(fmt.Sprintf("{| d_tabs := %s; d_running := %s; d_impl := %s |}", cList(ct), cList(cr), oL(oLs(ao), oLs(bo))), fmt.Sprint(tabs, run))
		// oracle, by sets: start = catalogued table shards (serving or recovering) that do not run; stop = running table
		// shards that are not catalogued
		{
			cat, rn := map[uint64]bool{}, map[uint64]bool{}
			for _, t := range tabs {
				cat[t.ClusterID], cat[t.RecoverID] = true, true
			}
			for _, s := range run {
				rn[s.ShardID] = true
			}
			var wa, wb []uint64
			for id := range cat {
				if id > table.VerifTableIDsRangeStart && !rn[id] {
					wa = append(wa, id)
				}
			}
			for id := range rn {
				if id > table.VerifTableIDsRangeStart && !cat[id] {
					wb = append(wb, id)
				}
			}
			sort.Slice(wa, func(i, j int) bool { return wa[i] < wa[j] })
			sort.Slice(wb, func(i, j int) bool { return wb[i] < wb[j] })
			uniq := func(x []uint64) []uint64 {
				var o []uint64
				for i, v := range x {
					if i == 0 || v != x[i-1] {
						o = append(o, v)
					}
				}
				return o
			}
			in := map[string]any{"catalogue": fmt.Sprint(tabs), "running": fmt.Sprint(run)}
			if fmt.Sprint(a) != fmt.Sprint(wa) {
				sum.violate(100000+i, "reconciliation does not start exactly the catalogued shards that are not running", in, fmt.Sprintf("starts %v, expected %v", a, wa))
			}
			if fmt.Sprint(uniq(b)) != fmt.Sprint(wb) {
				sum.violate(100000+i, "reconciliation does not stop exactly the running shards that are no longer catalogued", in, fmt.Sprintf("stops %v, expected %v", b, wb))
			}
		}
		sum.Evaluations++
		if len(tabs) > 0 && len(run) > 0 {
			sum.DistinctNontrivial++
		}
	}
	dnames, err := df.Write(rf.Out, "c14_diff", 300)
	if err != nil {
		return err
	}

	// ---- (b2) a replica of the metadata shard that lags behind and is caught up by a snapshot: its catalogue is the
	// leader's afterwards - a table deleted in the meantime does not come back ----
	{
		lead := newSchedStore()
		lm := table.NewManager(nil, nil, &gate{id: 90, store: lead}, table.Config{NodeID: 90, Table: table.TableConfig{BlockCacheSize: 1024, TableCacheSize: 1024}})
		for _, n := range []string{"alpha", "beta"} {
			if _, err := lm.VerifCreateTable(n); err != nil {
				return err
			}
		}
		lag := kv.NewLFSM()(1, 2)
		if _, err := lag.Update(append([]dbsm.Entry{}, lead.log...)); err != nil { // the replica has seen this much
			return err
		}
		if err := lm.DeleteTable("alpha"); err != nil {
			return err
		}
		if _, err := lm.VerifCreateTable("gamma"); err != nil {
			return err
		}
		sctx, err := lead.fsm.PrepareSnapshot()
		if err != nil {
			return err
		}
		var sbuf bytes.Buffer
		if err := lead.fsm.SaveSnapshot(sctx, &sbuf, nil, nil); err != nil {
			return err
		}
		if err := lag.RecoverFromSnapshot(&sbuf, nil, nil); err != nil {
			return err
		}
		follower := &schedStore{fsm: lag, next: lead.next, enq: make(chan struct{}, 16)}
		fm := table.NewManager(nil, nil, &gate{id: 91, store: follower}, table.Config{NodeID: 91, Table: table.TableConfig{BlockCacheSize: 1024, TableCacheSize: 1024}})
		names := func(m *table.Manager) string {
			ts, err := m.GetTables()
			if err != nil {
				return "error: " + err.Error()
			}
			var l []string
			for _, t := range ts {
				l = append(l, fmt.Sprintf("%s=%d", t.Name, t.ClusterID))
			}
			sort.Strings(l)
			return strings.Join(l, ",")
		}
		sum.Evaluations++
		if a, b := names(lm), names(fm); a != b {
			sum.violate(200000, "replicas of the catalogue disagree after one of them was caught up by a snapshot", map[string]any{"history": "create alpha, beta (replica B has seen this); delete alpha; create gamma; snapshot of the leader installed on B"}, fmt.Sprintf("leader lists {%s}, B lists {%s}", a, b))
		}
	}

	// ---- (b3) where a table's record lives and what the listing selects: the key createTable uses for a name and
	// whether GetTables lists the table afterwards, against Proofs/CatalogueKeys.v ----
	kf := &CasesFile{Requires: []string{"Model.Bytes", "Model.Obs", "Model.MetaKV", "Proofs.CatalogueKeys", "Run.C14Run"}, CaseType: "kcase", Check: "k_check", Show: "k_model"}
	for _, name := range []string{"a", "alpha", ".", "..", "a.b", "a-archive", "sys", "a/lease", "sys/idseq", "x/y/z", "a/", "*", "ü"} {
		st := newSchedStore()
		var first string
		g := &gate{id: 1, store: st, rec: func(op, key string) {
			if first == "" {
				first = key
			}
		}}
		m := table.NewManager(nil, nil, g, table.Config{NodeID: 1, Table: table.TableConfig{BlockCacheSize: 1024, TableCacheSize: 1024}})
		listed := false
		if _, err := m.VerifCreateTable(name); err == nil {
			g.rec = nil
			if ts, err := m.GetTables(); err == nil {
				for _, t := range ts {
					listed = listed || t.Name == name
				}
			}
		}
		kf.Add(fmt.Sprintf("{| kc_name := %s; kc_impl := %s |}", cBytes([]byte(name)), oL(oB([]byte(first)), oBool(listed))), fmt.Sprintf("table name %q", name))
		sum.Evaluations++
	}
	knames, err := kf.Write(rf.Out, "c14_keys", 50)
	if err != nil {
		return err
	}
	dnames = append(dnames, knames...)

	// ---- (b4) lookups through one manager reflect catalogue changes made through another one (another cluster member
	// on the same metadata store): no table is found after it was deleted elsewhere, a table created elsewhere is found ----
	{
		st := newSchedStore()
		mk := func(id int) *table.Manager {
			return table.NewManager(nil, nil, &gate{id: id, store: st}, table.Config{NodeID: uint64(id), Table: table.TableConfig{BlockCacheSize: 1024, TableCacheSize: 1024}})
		}
		x, y := mk(1), mk(2)
		// without a NodeHost GetTable cannot build the table's handle (it panics after the record was found): found = no 'not found'
		found := func(m *table.Manager, name string) (ok bool) {
			defer func() {
				if recover() != nil {
					ok = true
				}
			}()
			_, err := m.GetTable(name)
			return err == nil
		}
		var log []string
		expect := func(m *table.Manager, who, name string, want bool) {
			got := found(m, name)
			log = append(log, fmt.Sprintf("%s.GetTable(%s)=%v", who, name, got))
			sum.Evaluations++
			if got != want {
				sum.violate(0, "a table lookup does not reflect precisely the created-and-not-deleted tables (a change made through another manager is not seen)", map[string]any{"calls": append([]string{}, log...)}, fmt.Sprintf("found=%v, expected %v", got, want))
			}
		}
		for round := 0; round < 3; round++ {
			n := fmt.Sprintf("t%d", round%2)
			expect(x, "X", n, false)
			if _, err := y.VerifCreateTable(n); err != nil {
				return err
			}
			log = append(log, "Y.CreateTable("+n+")")
			expect(x, "X", n, true)
			expect(y, "Y", n, true)
			if err := y.DeleteTable(n); err != nil {
				return err
			}
			log = append(log, "Y.DeleteTable("+n+")")
			expect(x, "X", n, false)
			expect(y, "Y", n, false)
			if _, err := x.VerifCreateTable(n); err != nil {
				return err
			}
			log = append(log, "X.CreateTable("+n+")")
			expect(y, "Y", n, true)
			if err := x.DeleteTable(n); err != nil {
				return err
			}
			log = append(log, "X.DeleteTable("+n+")")
			expect(y, "Y", n, false)
		}
	}

	// ---- (c) real Manager on a NodeHost ----
	if err := c14RealManager(sum); err != nil {
		return err
	}
	if len(sum.Samples) == 0 {
		sum.Samples = append(sum.Samples, cf.Descr[0])
	}
	sum.CasesFiles = append(names, dnames...)
	return sum.write(rf.Out, "c14")
}

func c14RealManager(sum *Summary) error {
	nh, members, err := startNodeHost()
	if err != nil {
		return err
	}
	defer nh.Close()
	cfg := table.Config{NodeID: 1,
		Table: table.TableConfig{HeartbeatRTT: 1, ElectionRTT: 5, FS: pvfs.NewMem(), BlockCacheSize: 1024, TableCacheSize: 1024},
		Meta:  table.MetaConfig{HeartbeatRTT: 1, ElectionRTT: 5}}
	tm := table.NewManager(nh, members, &kv.MapStore{}, cfg)
	tm.Start()
	defer tm.Close()
	ctx := context.Background()
	seenIDs := map[uint64]string{}
	var lastID uint64
	in := func(step string) map[string]any {
		return map[string]any{"scenario": "create a,b; fill; delete a; recreate a; interrupted restore of b; create d; restore b; slash names; prefix names", "step": step}
	}
	noteID := func(step string, id uint64) {
		if prev, ok := seenIDs[id]; ok {
			sum.violate(0, "a shard id was assigned to two tables", in(step), fmt.Sprintf("id %d already used by %s", id, prev))
		}
		if id <= lastID {
			sum.violate(0, "shard ids are not strictly increasing in creation order", in(step), fmt.Sprintf("%d after %d", id, lastID))
		}
		seenIDs[id] = step
		lastID = id
	}
	active := func(name string) (table.ActiveTable, error) {
		var at table.ActiveTable
		var err error
		for i := 0; i < 200; i++ {
			at, err = tm.GetTable(name)
			if err == nil {
				c, cancel := context.WithTimeout(ctx, time.Second)
				_, err = at.LocalIndex(c, true)
				cancel()
				if err == nil {
					return at, nil
				}
			}
			time.Sleep(25 * time.Millisecond)
		}
		return at, err
	}
	put := func(at table.ActiveTable, k, v string) error {
		c, cancel := context.WithTimeout(ctx, 5*time.Second)
		defer cancel()
		_, err := at.Put(c, &regattapb.PutRequest{Table: []byte(at.Name), Key: []byte(k), Value: []byte(v)})
		return err
	}
	count := func(at table.ActiveTable) (int64, error) {
		c, cancel := context.WithTimeout(ctx, 5*time.Second)
		defer cancel()
		r, err := at.Range(c, &regattapb.RangeRequest{Table: []byte(at.Name), Key: []byte{0}, RangeEnd: []byte{0}, Linearizable: true, CountOnly: true})
		if err != nil {
			return 0, err
		}
		return r.Count, nil
	}
	ta, err := tm.CreateTable("a")
	if err != nil {
		return err
	}
	noteID("create a", ta.ClusterID)
	tb, err := tm.CreateTable("b")
	if err != nil {
		return err
	}
	noteID("create b", tb.ClusterID)
	aa, err := active("a")
	if err != nil {
		return err
	}
	ab, err := active("b")
	if err != nil {
		return err
	}
	for i := 0; i < 5; i++ {
		if err := put(aa, fmt.Sprintf("k%d", i), "va"); err != nil {
			return err
		}
	}
	if err := put(ab, "kb", "vb"); err != nil {
		return err
	}
	if _, err := tm.CreateTable("a"); !errors.Is(err, serrors.ErrTableExists) {
		sum.violate(0, "creating an existing table did not fail with 'exists'", in("create a again"), fmt.Sprint(err))
	}
	if err := tm.DeleteTable("a"); err != nil {
		return err
	}
	if err := tm.DeleteTable("a"); !errors.Is(err, serrors.ErrTableNotFound) {
		sum.violate(0, "deleting a missing table did not fail with 'not found'", in("delete a again"), fmt.Sprint(err))
	}
	ta2, err := tm.CreateTable("a")
	if err != nil {
		return err
	}
	noteID("recreate a", ta2.ClusterID)
	aa2, err := active("a")
	if err != nil {
		return err
	}
	if n, err := count(aa2); err != nil || n != 0 {
		sum.violate(0, "a table recreated under a previously used name is not empty", in("recreate a"), fmt.Sprint(n, err))
	}
	if n, err := count(ab); err != nil || n != 1 {
		sum.violate(0, "operations on one table changed the content of another", in("count b"), fmt.Sprint(n, err))
	}
	// restore: the table moves to a NEW shard id (also when an earlier attempt broke off) and holds the stream only
	{
		mkStream := c14Stream
		restore := func(name string, rd io.Reader) error {
			done := make(chan error, 1)
			go func() { done <- tm.Restore(name, rd) }()
			select {
			case err := <-done:
				return err
			case <-time.After(60 * time.Second):
				return fmt.Errorf("harness: restore of %s did not return within 60s", name)
			}
		}
		sfA, err := mkStream([][2]string{{"ra", "1"}, {"rb", "2"}, {"rc", "3"}})
		if err != nil {
			return err
		}
		errA := restore("b", &failingReader{r: sfA, n: 2})
		_ = sfA.Close()
		_ = os.Remove(sfA.Path())
		if errA == nil {
			return fmt.Errorf("harness: the interrupted restore did not fail")
		}
		td, err := tm.CreateTable("d")
		if err != nil {
			return err
		}
		noteID("create d after an interrupted restore of b", td.ClusterID)
		sfB, err := mkStream([][2]string{{"rb", "9"}})
		if err != nil {
			return err
		}
		errB := restore("b", sfB)
		_ = sfB.Close()
		_ = os.Remove(sfB.Path())
		if errB != nil {
			return fmt.Errorf("restore b: %w", errB)
		}
		rb, err := tm.GetTable("b")
		if err != nil {
			return err
		}
		noteID("restore b (after an interrupted attempt and create d)", rb.ClusterID)
		ab, err = active("b")
		if err != nil {
			return err
		}
		if n, err := count(ab); err != nil || n != 1 {
			sum.violate(0, "a restored table holds more than the restored stream", in("restore b (1 pair) after an interrupted restore of 3 other pairs"), fmt.Sprint(n, err))
		}
		if n, err := count(aa2); err != nil || n != 0 {
			sum.violate(0, "operations on one table changed the content of another", in("count a after restore b"), fmt.Sprint(n, err))
		}
	}
	// names that alias internal records
	for _, bad := range []string{"sys/idseq", "a/lease", "x/y"} {
		derr := tm.DeleteTable(bad)
		_, cerr := tm.CreateTable(bad)
		if derr == nil || cerr == nil {
			sum.Notes = append(sum.Notes, fmt.Sprintf("table name %q accepted (delete err=%v, create err=%v)", bad, derr, cerr))
		}
	}
	tc, err := tm.CreateTable("c")
	if err != nil {
		sum.violate(0, "a table name containing '/' aliased an internal catalogue record: creating a further table fails", in("create c after delete+create of sys/idseq, a/lease, x/y"), err.Error())
		sum.Evaluations += 12
		sum.DistinctNontrivial += 6
		return nil
	}
	noteID("create c after slash-name requests", tc.ClusterID)
	// names that are prefixes / extensions of each other: deleting one leaves the others alone
	for _, n := range []string{"ab", "a-archive", "a.b", "aa"} {
		tn, err := tm.CreateTable(n)
		if err != nil {
			return err
		}
		noteID("create "+n, tn.ClusterID)
	}
	if err := tm.DeleteTable("a"); err != nil {
		return err
	}
	if err := tm.DeleteTable("aa"); err != nil {
		sum.violate(0, "deleting a table removed another table whose name starts with its name", in("create ab, a-archive, a.b, aa; delete a; delete aa"), err.Error())
	}
	// names that a path clean-up would swallow: "." and ".." are table names like any other
	for _, n := range []string{".", ".."} {
		tn, err := tm.CreateTable(n)
		if err != nil {
			sum.violate(0, "a valid table name cannot be created", in("create "+n), err.Error())
			continue
		}
		noteID("create "+n, tn.ClusterID)
		lt, err := tm.GetTables()
		if err != nil {
			return err
		}
		found := false
		for _, t := range lt {
			found = found || t.Name == n
		}
		if !found {
			sum.violate(0, "listing does not reflect precisely the created-and-not-deleted tables", in("list after create "+n), fmt.Sprintf("table %q is missing from the listing", n))
		}
		if _, err := tm.GetTable(n); err != nil {
			sum.violate(0, "a created table cannot be looked up", in("get "+n), err.Error())
		}
		if err := tm.DeleteTable(n); err != nil {
			sum.violate(0, "a created table cannot be deleted", in("delete "+n), err.Error())
		}
	}
	ts, err := tm.GetTables()
	if err != nil {
		return err
	}
	var listed []string
	for _, t := range ts {
		listed = append(listed, t.Name)
	}
	sort.Strings(listed)
	if strings.Join(listed, ",") != "a-archive,a.b,ab,b,c,d" {
		sum.violate(0, "listing does not reflect precisely the created-and-not-deleted tables", in("list"), strings.Join(listed, ","))
	}
	sum.Evaluations += 12
	sum.DistinctNontrivial += 6
	return nil
}

// c14Stream: a table stream (as the leader's snapshot service produces it) holding the given pairs.
func c14Stream(kvs [][2]string) (interface {
	io.Reader
	Close() error
	Path() string
}, error) {
	src, _, err := newRealFSM(pvfs.NewMem(), fsm.RecoveryTypeSnapshot)
	if err != nil {
		return nil, err
	}
	defer src.close()
	var es []gEntry
	for i, kv := range kvs {
		es = append(es, gEntry{Idx: uint64(i + 1), Cmd: gCmd{Kind: regattapb.Command_PUT, K: []byte(kv[0]), V: []byte(kv[1])}})
	}
	if _, _, err := src.apply(es); err != nil {
		return nil, err
	}
	file, path, _, _, err := captureTable(src, true, []int{1 << 20}, nil)
	if err != nil {
		return nil, err
	}
	_ = file.Close()
	return snapshot.OpenFile(path)
}
