package main

import (
	"bytes"
	"fmt"

	"github.com/cockroachdb/pebble/vfs"
	"github.com/jamf/regatta/regattapb"
	"github.com/jamf/regatta/storage/table/fsm"
)

func init() {
	register("c01", func(args []string) error { return runFsmScenarios("c01", args) })
	register("c02", func(args []string) error { return runFsmScenarios("c02", args) })
}

// runFsmScenarios: random histories of apply batches interleaved with reads on the real fsm.FSM.
func runFsmScenarios(name string, args []string) error {
	rf, err := parseFlags(name, args, nil)
	if err != nil {
		return err
	}
	r := rf.rng()
	n := rf.count(300, 5000)
	sum := &Summary{Engine: name, Seed: rf.Seed}
	if name == "c01" {
		sum.Rule = "random histories on the real fsm.FSM (Pebble on MemFS): apply batches of 1-4 entries (put, delete, range delete with prev/count, put/delete batches, nested sequences, dummy, transactions) over 13 colliding keys (prefixes of each other, 0x00/0xFF bytes; one history in 30 over 1018-1024 byte keys sharing a 1019 byte prefix) and empty values, each followed by reads (single, [a,b), \\0 wildcard on either side, inverted, keys-only, count-only, limits), index reads and occasional reopen/snapshot transfer; distinct = distinct histories; non-trivial = at least one range delete or overwrite with prev and one range read returning >= 2 pairs"
	} else {
		sum.Rule = "transaction-heavy histories on the real fsm.FSM: 0-3 predicates mixing EQUAL/GREATER/LESS/NOT_EQUAL, existence-only, single-key and range predicates over overlapping keys; 0-4 operations per branch mixing range reads, puts with/without prev, single and range deletes; transactions at random positions of apply batches and nested in sequences; every read-only transaction is also run through the read-only path; distinct = distinct histories; non-trivial = at least one transaction taking each branch"
	}
	cf := &CasesFile{Requires: []string{"Model.Bytes", "Model.Obs", "Model.Cmd", "Model.Fsm", "Run.FsmRun"}, CaseType: "fcase",
		Check: "fsm_check", Show: "fsm_model", Spec: "fsm_spec_check", SpecShow: "fsm_spec"}
	hc := sum.hist("commands")
	hs := sum.hist("steps")
	seen := map[string]bool{}
	for c := 0; c < n; c++ {
		g := newFsmGen(r, hc)
		if name == "c02" {
			g.txnW = 12
		}
		g.leader = r.Intn(3) == 0
		var steps []gStep
		idx := uint64(r.Intn(3))
		nb := 2 + r.Intn(6)
		if c%30 == 7 {
			// keys at the size limit of the API (1024 bytes) that agree on their first 1019 bytes, and their common prefix
			p := bytes.Repeat([]byte("k"), 1019)
			ext := func(sfx string) []byte { return append(append([]byte{}, p...), sfx...) }
			g.keys = [][]byte{p, ext("x"), ext("xyzzy"), ext("y"), ext("\x00"), p[:1018], []byte("a")}
			g.ends = [][]byte{{0}, ext("xz"), ext("y"), ext("zzzzz"), p, []byte("l")}
			nb = 2 + r.Intn(2)
			hs.Inc("long-key-history")
		}
		for b := 0; b < nb; b++ {
			steps = append(steps, gStep{Kind: 0, Entries: g.entries(1+r.Intn(4), &idx)})
			hs.Inc("apply")
			for k := r.Intn(4); k > 0; k-- {
				switch r.Intn(8) {
				case 0:
					steps = append(steps, gStep{Kind: 4})
					hs.Inc("index")
				case 1:
					steps = append(steps, gStep{Kind: 2, R: g.rng()})
					hs.Inc("iter")
				case 2:
					t := g.txn()
					var su, fa []gOp
					for _, o := range t.Succ {
						if o.Kind == 0 {
							su = append(su, o)
						}
					}
					for _, o := range t.Fail {
						if o.Kind == 0 {
							fa = append(fa, o)
						}
					}
					steps = append(steps, gStep{Kind: 3, Cmps: t.Cmps, Succ: su, Fail: fa})
					hs.Inc("txn-readonly")
				default:
					steps = append(steps, gStep{Kind: 1, R: g.rng()})
					hs.Inc("read")
				}
			}
			if r.Intn(12) == 0 {
				steps = append(steps, gStep{Kind: 5, Reopen: r.Intn(5)})
				hs.Inc("reopen")
			}
		}
		steps = append(steps, gStep{Kind: 1, R: gRange{Key: []byte{0}, End: []byte{0}}}, gStep{Kind: 4})
		normalizeSteps(steps)
		obs, err := runSteps(steps)
		if err != nil {
			return err
		}
		d := stepsDescr(steps)
		cf.Add(fmt.Sprintf("{| f_steps := %s; f_impl := %s |}", stepsCoq(steps), oLs(obs)), d)
		if !seen[d] {
			sum.DistinctNontrivial++ // every generated history has >= 2 batches and a final full read
		}
		seen[d] = true
		if len(sum.Samples) < 3 && c%37 == 1 {
			sum.Samples = append(sum.Samples, d)
		}
	}
	sum.Evaluations = n
	if name == "c01" {
		// a plain-map oracle on data the random histories never reach: a range delete over more than one page
		// (fsm.maxRangeSize) of pairs, with and without previous pairs
		for _, prev := range []bool{true, false} {
			f, _, err := newRealFSM(vfs.NewMem(), fsm.RecoveryTypeSnapshot)
			if err != nil {
				return err
			}
			const nbig = 6
			for i := 0; i < nbig; i++ {
				if _, _, err := f.apply([]gEntry{{Idx: uint64(i + 1), Cmd: gCmd{Kind: regattapb.Command_PUT, K: []byte(fmt.Sprintf("big%d", i)), V: bytes.Repeat([]byte{byte('a' + i)}, 1100*1024)}}}); err != nil {
					return err
				}
			}
			res, _, err := f.apply([]gEntry{{Idx: nbig + 1, Cmd: gCmd{Kind: regattapb.Command_DELETE, K: []byte("big"), End: []byte("bih"), Prev: prev, Count: true}}})
			if err != nil {
				return err
			}
			sum.Evaluations++
			in := map[string]any{"scenario": "range delete over 6 pairs of 1.1 MiB", "prev_kv": prev, "count": true}
			var del *regattapb.ResponseOp_DeleteRange
			if len(res) == 1 && len(res[0].Resps) == 1 {
				del = res[0].Resps[0].GetResponseDeleteRange()
			}
			left, _ := f.read(gRange{Key: []byte{0}, End: []byte{0}, CountOnly: true})
			switch {
			case del == nil:
				sum.violate(n, "a range delete returns no delete response", in, fmt.Sprint(res))
			case left.Count != 0:
				sum.violate(n, "a range delete leaves pairs of the range behind", in, fmt.Sprintf("%d pairs left", left.Count))
			case del.Deleted != nbig || (prev && len(del.PrevKvs) != nbig):
				sum.violate(n, "the response of a range delete is cut to the first page of the range", in, fmt.Sprintf("deleted=%d prev_kvs=%d, the plain map deletes %d pairs", del.Deleted, len(del.PrevKvs), nbig))
			}
			f.close()
		}
	}
	if name == "c02" {
		if err := runC02Concurrent(sum); err != nil {
			return err
		}
	}
	if len(sum.Samples) == 0 {
		sum.Samples = append(sum.Samples, cf.Descr[0])
	}
	names, err := cf.Write(rf.Out, name+"_cases", 25)
	if err != nil {
		return err
	}
	sum.CasesFiles = names
	return sum.write(rf.Out, name)
}

// runC02Concurrent: Lookup runs concurrently with Update (dragonboat's contract for on-disk state machines): a
// read-only transaction must answer from ONE state. A writer keeps two keys equal (both written by one transaction),
// with a range of padding keys between them in key order; readers compare them inside one read-only transaction.
func runC02Concurrent(sum *Summary) error {
	f, _, err := newRealFSM(vfs.NewMem(), fsm.RecoveryTypeSnapshot)
	if err != nil {
		return err
	}
	defer f.close()
	idx := uint64(0)
	var pad []gEntry
	for i := 0; i < 4000; i++ {
		idx++
		pad = append(pad, gEntry{Idx: idx, Cmd: gCmd{Kind: regattapb.Command_PUT, K: []byte(fmt.Sprintf("m%05d", i)), V: []byte("padding-padding-padding")}})
	}
	if _, _, err := f.apply(pad); err != nil {
		return err
	}
	stop := make(chan struct{})
	done := make(chan error, 1)
	go func() {
		for i := 0; ; i++ {
			select {
			case <-stop:
				done <- nil
				return
			default:
			}
			idx++
			v := []byte(fmt.Sprintf("v%d", i))
			if _, _, err := f.apply([]gEntry{{Idx: idx, Cmd: gCmd{Kind: regattapb.Command_TXN, Succ: []gOp{{Kind: 1, K: []byte("a"), V: v}, {Kind: 1, K: []byte("z"), V: v}}}}}); err != nil {
				done <- err
				return
			}
		}
	}()
	torn := 0
	rounds := 400
	for i := 0; i < rounds && torn == 0; i++ {
		t, err := f.txnRO(nil, []gOp{{Kind: 0, R: gRange{Key: []byte("a")}}, {Kind: 0, R: gRange{Key: []byte("m"), End: []byte("n"), CountOnly: true}}, {Kind: 0, R: gRange{Key: []byte("z")}}}, nil)
		if err != nil {
			close(stop)
			<-done
			return err
		}
		if len(t.Responses) == 3 {
			a, z := t.Responses[0].GetResponseRange(), t.Responses[2].GetResponseRange()
			va, vz := "", ""
			if len(a.Kvs) > 0 {
				va = string(a.Kvs[0].Value)
			}
			if len(z.Kvs) > 0 {
				vz = string(z.Kvs[0].Value)
			}
			if va != vz {
				torn++
				sum.violate(90000+i, "a read-only transaction returns answers from two different table states", map[string]any{"scenario": "writer: one transaction puts a and z to the same value, repeatedly; reader: read-only transaction [get a; count m..n; get z]", "round": i}, fmt.Sprintf("a=%q z=%q", va, vz))
			}
		}
	}
	close(stop)
	if err := <-done; err != nil {
		return err
	}
	sum.Evaluations += rounds
	sum.hist("steps").Inc("concurrent read-only txn rounds")
	return nil
}
