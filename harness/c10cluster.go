package main

import (
	"context"
	"fmt"
	"sync"
	"time"

	pvfs "github.com/cockroachdb/pebble/vfs"
	"github.com/jamf/regatta/regattapb"
	"github.com/jamf/regatta/storage"
	lvfs "github.com/lni/vfs"
	"go.uber.org/zap"
)

// applyGate stalls the apply loop of one replica of a table: the applied-index listener of the table state machine runs
// on the apply goroutine after a batch has been committed to Pebble; while the gate is shut it does not return, so the
// replica keeps voting, replicating and (if it is the leader) leading, but its state machine stays where it is.
type applyGate struct {
	mu   sync.Mutex
	shut chan struct{}
}

func (g *applyGate) close() {
	g.mu.Lock()
	defer g.mu.Unlock()
	if g.shut == nil {
		g.shut = make(chan struct{})
	}
}

func (g *applyGate) open() {
	g.mu.Lock()
	defer g.mu.Unlock()
	if g.shut != nil {
		close(g.shut)
		g.shut = nil
	}
}

func (g *applyGate) pass() {
	g.mu.Lock()
	ch := g.shut
	g.mu.Unlock()
	if ch != nil {
		<-ch
	}
}

// runC10Cluster: three real engines (node hosts on loopback, in-memory file systems) form one cluster with one table of
// three replicas.  In turn the state machine of every replica - so also the one that leads the shard - is made to lag
// behind the log while the other two keep acknowledging writes; the lagging replica is then asked for linearizable reads
// (Range, IterateRange, a read-only transaction) of a key whose write was acknowledged before the read started.  The read
// may fail or run into its deadline; an answer without the acknowledged write is a violation.
func runC10Cluster(rf *runFlags, sum *Summary) ([]string, error) {
	lf := &CasesFile{Requires: []string{"Model.Bytes", "Model.Obs", "Model.Linear", "Run.C10Run"}, CaseType: "lcase", Check: "l_check", Show: "l_model"}
	lcase := func(txn, lin, leader bool, applied, committed, acked int, impl int, descr string) {
		lf.Add(fmt.Sprintf("{| lc_txn := %s; lc_lin := %s; lc_leader := %s; lc_applied := %d; lc_committed := %d; lc_acked := %d; lc_impl := %d |}", cBool(txn), cBool(lin), cBool(leader), applied, committed, acked, impl), descr)
	}
	const nodes = 3
	const tname = "c10cluster"
	h := sum.hist("cluster_reads")
	members := map[uint64]string{}
	for i := uint64(1); i <= nodes; i++ {
		members[i] = freeAddr()
	}
	gates := map[uint64]*applyGate{}
	engines := map[uint64]*storage.Engine{}
	defer func() {
		for _, g := range gates {
			g.open()
		}
		var wg sync.WaitGroup
		for _, e := range engines {
			wg.Add(1)
			go func(e *storage.Engine) {
				defer wg.Done()
				done := make(chan struct{})
				go func() { _ = e.Close(); close(done) }()
				select {
				case <-done:
				case <-time.After(20 * time.Second):
				}
			}(e)
		}
		wg.Wait()
	}()
	for i := uint64(1); i <= nodes; i++ {
		g := &applyGate{}
		gates[i] = g
		e, err := storage.New(storage.Config{
			FS:             lvfs.NewMem(),
			Log:            zap.NewNop().Sugar(),
			InitialMembers: members,
			Gossip:         storage.GossipConfig{BindAddress: freeAddr(), ClusterName: "c10cluster"},
			NodeID:         i,
			RTTMillisecond: 5,
			RaftAddress:    members[i],
			Table: storage.TableConfig{HeartbeatRTT: 2, ElectionRTT: 20, FS: pvfs.NewMem(), MaxInMemLogSize: 1024 * 1024, BlockCacheSize: 1024 * 1024, TableCacheSize: 1024,
				AppliedIndexListener: func(table string, rev uint64) {
					if table == tname {
						g.pass()
					}
				}},
			Meta: storage.MetaConfig{HeartbeatRTT: 2, ElectionRTT: 20},
		})
		if err != nil {
			return nil, fmt.Errorf("c10cluster: engine %d: %w", i, err)
		}
		engines[i] = e
	}
	for i, e := range engines {
		if err := e.Start(); err != nil {
			return nil, fmt.Errorf("c10cluster: start %d: %w", i, err)
		}
	}
	for i, e := range engines {
		ctx, cancel := context.WithTimeout(context.Background(), 60*time.Second)
		err := e.WaitUntilReady(ctx)
		cancel()
		if err != nil {
			return nil, fmt.Errorf("c10cluster: engine %d not ready: %w", i, err)
		}
	}
	tab, err := engines[1].CreateTable(tname)
	if err != nil {
		return nil, fmt.Errorf("c10cluster: create table: %w", err)
	}
	// the other replicas are started by the reconcile loop of their manager (every 30 s); ask for it now
	ready := func(e *storage.Engine) bool {
		t, err := e.GetTable(tname)
		if err != nil {
			return false
		}
		ctx, cancel := context.WithTimeout(context.Background(), time.Second)
		defer cancel()
		_, err = t.LocalIndex(ctx, true)
		return err == nil
	}
	deadline := time.Now().Add(60 * time.Second)
	for i := uint64(1); i <= nodes; i++ {
		for !ready(engines[i]) {
			if time.Now().After(deadline) {
				return nil, fmt.Errorf("c10cluster: replica %d of the table did not become ready", i)
			}
			_ = engines[i].VerifReconcile()
			time.Sleep(50 * time.Millisecond)
		}
	}

	put := func(id uint64, key string) error {
		ctx, cancel := context.WithTimeout(context.Background(), 5*time.Second)
		defer cancel()
		_, err := engines[id].Put(ctx, &regattapb.PutRequest{Table: []byte(tname), Key: []byte(key), Value: []byte("v-" + key)})
		return err
	}
	// the three ways an engine serves a read that has to be linearizable; each returns the number of records found
	type readFn func(ctx context.Context, e *storage.Engine, key string, lin bool) (int, error)
	reads := []struct {
		name string
		fn   readFn
	}{
		{"Range", func(ctx context.Context, e *storage.Engine, key string, lin bool) (int, error) {
			res, err := e.Range(ctx, &regattapb.RangeRequest{Table: []byte(tname), Key: []byte(key), Linearizable: lin})
			if err != nil {
				return 0, err
			}
			return len(res.Kvs), nil
		}},
		{"IterateRange", func(ctx context.Context, e *storage.Engine, key string, lin bool) (int, error) {
			seq, err := e.IterateRange(ctx, &regattapb.RangeRequest{Table: []byte(tname), Key: []byte(key), Linearizable: lin})
			if err != nil {
				return 0, err
			}
			n := 0
			seq(func(r *regattapb.RangeResponse) bool {
				n += len(r.Kvs)
				return true
			})
			return n, nil
		}},
		{"read-only Txn", func(ctx context.Context, e *storage.Engine, key string, lin bool) (int, error) {
			if !lin {
				return 0, fmt.Errorf("transactions are always linearizable")
			}
			res, err := e.Txn(ctx, &regattapb.TxnRequest{Table: []byte(tname), Success: []*regattapb.RequestOp{{Request: &regattapb.RequestOp_RequestRange{RequestRange: &regattapb.RequestOp_Range{Key: []byte(key)}}}}})
			if err != nil {
				return 0, err
			}
			if len(res.Responses) != 1 || res.Responses[0].GetResponseRange() == nil {
				return 0, fmt.Errorf("unexpected transaction response %v", res)
			}
			return len(res.Responses[0].GetResponseRange().Kvs), nil
		}},
	}
	leaderOf := func() uint64 {
		id, _, ok, err := engines[1].GetLeaderID(tab.ClusterID)
		if err != nil || !ok {
			return 0
		}
		return id
	}

	// no lag: every replica answers every kind of linearizable read with an acknowledged write
	for i := 0; ; i++ {
		if err := put(1, "warmup"); err == nil {
			break
		} else if i > 50 {
			return nil, fmt.Errorf("c10cluster: warm-up write: %w", err)
		}
		time.Sleep(100 * time.Millisecond)
	}
	for id := uint64(1); id <= nodes; id++ {
		for _, rd := range reads {
			ctx, cancel := context.WithTimeout(context.Background(), 5*time.Second)
			n, err := rd.fn(ctx, engines[id], "warmup", true)
			cancel()
			sum.Evaluations++
			if err == nil && n != 1 {
				sum.violate(1010000+int(id), "a linearizable read does not reflect a write acknowledged before it started",
					map[string]any{"cluster": "three real engines, one table with three replicas, no replica lags", "write": "put warmup through replica 1 (acknowledged)", "read": rd.name + " of key warmup, linearizable, on replica " + fmt.Sprint(id)},
					fmt.Sprintf("answered with %d records", n))
			}
			h.Inc(rd.name + " without lag")
			lcase(rd.name == "read-only Txn", true, leaderOf() == id, 1, 1, 1, implCode(err, n), fmt.Sprintf("%s (linearizable) of an acknowledged key on replica %d, no lag", rd.name, id))
		}
	}

	passes := 1
	if rf.Tier == "thorough" {
		passes = 3 * rf.Scale
	}
	lagLeader, lagFollower := 0, 0
	for pass := 0; pass < passes; pass++ {
		for x := uint64(1); x <= nodes; x++ {
			y := x%nodes + 1
			gates[x].close()
			k0 := fmt.Sprintf("pre-%d-%d", pass, x)
			key := fmt.Sprintf("key-%d-%d", pass, x)
			// the first write passes the gate's point once (x applies it and then stops), the second is the one x lags behind
			if err := put(y, k0); err != nil {
				gates[x].open()
				h.Inc("round skipped: write failed")
				continue
			}
			if err := put(y, key); err != nil {
				gates[x].open()
				h.Inc("round skipped: write failed")
				continue
			}
			// key is acknowledged.  Does x lag behind it?  (a local, serializable read)
			time.Sleep(100 * time.Millisecond)
			ctx, cancel := context.WithTimeout(context.Background(), 2*time.Second)
			n, err := reads[0].fn(ctx, engines[x], key, false)
			cancel()
			if err != nil || n != 0 {
				gates[x].open()
				h.Inc("round skipped: replica does not lag")
				continue
			}
			lcase(false, false, leaderOf() == x, 1, 2, 2, 2, fmt.Sprintf("serializable Range of the acknowledged key on replica %d whose apply loop is held before it", x))
			role := "follower"
			if leaderOf() == x {
				role = "leader"
			}
			for _, rd := range reads {
				start := time.Now()
				ctx, cancel := context.WithTimeout(context.Background(), 600*time.Millisecond)
				n, err := rd.fn(ctx, engines[x], key, true)
				cancel()
				sum.Evaluations++
				lcase(rd.name == "read-only Txn", true, role == "leader", 1, 2, 2, implCode(err, n), fmt.Sprintf("%s (linearizable) of a key acknowledged through replica %d, on replica %d (%s) whose apply loop is held before it", rd.name, y, x, role))
				switch {
				case err != nil:
					h.Inc(rd.name + " on a lagging " + role + ": no answer before the deadline")
				case n == 1:
					h.Inc(rd.name + " on a lagging " + role + ": answered with the write")
				default:
					sum.violate(1010100+pass*10+int(x), "a linearizable read served by a lagging replica does not reflect a write acknowledged before it started",
						map[string]any{"cluster": "three real engines, one table with three replicas", "lagging_replica": x, "its_role": role,
							"how": "the apply loop of the replica is held after it applied " + k0 + " (applied-index listener does not return)",
							"write": fmt.Sprintf("put %s through replica %d, acknowledged", key, y),
							"read":  fmt.Sprintf("%s of key %s, linearizable, on replica %d, started after the acknowledgement", rd.name, key, x)},
						fmt.Sprintf("answered after %v with %d records", time.Since(start).Round(time.Millisecond), n))
				}
			}
			if role == "leader" {
				lagLeader++
			} else {
				lagFollower++
			}
			// a read that starts while the replica is held and is still waiting when the replica is let go: it answers, with
			// the write (the consensus read waits for the replica to catch up with the commit index, it does not give up the
			// guarantee)
			type ans struct {
				n   int
				err error
			}
			for _, rd := range reads {
				ch := make(chan ans, 1)
				if rd.name != reads[0].name {
					gates[x].close()
					k1 := fmt.Sprintf("%s-%s", key, rd.name)
					if err := put(y, k1); err != nil {
						gates[x].open()
						continue
					}
					key = k1
					// x applies nothing further once it has passed the listener for the first entry it sees
					if err := put(y, key+"-2"); err != nil {
						gates[x].open()
						continue
					}
					key = key + "-2"
					time.Sleep(50 * time.Millisecond)
				}
				go func(rd readFn, key string) {
					ctx, cancel := context.WithTimeout(context.Background(), 5*time.Second)
					defer cancel()
					n, err := rd(ctx, engines[x], key, true)
					ch <- ans{n, err}
				}(rd.fn, key)
				time.Sleep(150 * time.Millisecond)
				gates[x].open()
				a := <-ch
				sum.Evaluations++
				lcase(rd.name == "read-only Txn", true, role == "leader", 1, 2, 2, implCode(a.err, a.n), fmt.Sprintf("%s (linearizable) of an acknowledged key on replica %d (%s), held when the read starts and let go while it waits", rd.name, x, role))
				switch {
				case a.err != nil:
					h.Inc(rd.name + " on a replica let go during the read: no answer")
				case a.n == 1:
					h.Inc(rd.name + " on a replica let go during the read: answered with the write")
				default:
					sum.violate(1010200+pass*10+int(x), "a linearizable read served by a replica that was lagging when it started does not reflect a write acknowledged before it started",
						map[string]any{"cluster": "three real engines, one table with three replicas", "replica": x, "its_role": role,
							"how":   "the apply loop of the replica is held when the read starts and released 150 ms later",
							"write": fmt.Sprintf("put %s through replica %d, acknowledged", key, y),
							"read":  fmt.Sprintf("%s of key %s, linearizable, on replica %d", rd.name, key, x)},
						fmt.Sprintf("answered with %d records", a.n))
				}
			}
		}
	}
	h["rounds with a lagging leader"] += lagLeader
	h["rounds with a lagging follower"] += lagFollower
	return lf.Write(rf.Out, "c10_cluster", 200)
}

func implCode(err error, n int) int {
	switch {
	case err != nil:
		return 0
	case n == 1:
		return 1
	}
	return 2
}
