package main

import (
	"context"
	"fmt"
	"sort"
	"strings"
	"sync"
	"time"

	"github.com/jamf/regatta/regattapb"
	"github.com/jamf/regatta/regattaserver"
	"github.com/jamf/regatta/storage"
	"google.golang.org/grpc"
)

func init() { register("fwd", runFwd) }

// countingLeader is the leader cluster as a follower's API sees it: every forwarded write is appended to the leader's log
// and answered with its log position.
type countingLeader struct {
	regattapb.KVClient
	mu  sync.Mutex
	len uint64
}

func (l *countingLeader) append() uint64 {
	l.mu.Lock()
	defer l.mu.Unlock()
	l.len++
	return l.len
}
func (l *countingLeader) Put(_ context.Context, _ *regattapb.PutRequest, _ ...grpc.CallOption) (*regattapb.PutResponse, error) {
	return &regattapb.PutResponse{Header: &regattapb.ResponseHeader{Revision: l.append()}}, nil
}
func (l *countingLeader) DeleteRange(_ context.Context, _ *regattapb.DeleteRangeRequest, _ ...grpc.CallOption) (*regattapb.DeleteRangeResponse, error) {
	return &regattapb.DeleteRangeResponse{Header: &regattapb.ResponseHeader{Revision: l.append()}}, nil
}
func (l *countingLeader) Txn(_ context.Context, _ *regattapb.TxnRequest, _ ...grpc.CallOption) (*regattapb.TxnResponse, error) {
	return &regattapb.TxnResponse{Header: &regattapb.ResponseHeader{Revision: l.append()}, Succeeded: true}, nil
}

// runFwd: the composition of Model/Forward.v against real code. Scripts of: writes through the real
// regattaserver.ForwardingKVServer (Put / DeleteRange / Txn in turn) waiting on the real storage.IndexNotificationQueue;
// other writers at the leader; log compaction; replication polls and recoveries that move the copy's leader index (the
// harness plays the worker: Model/Replication.v is compared with the real worker by engine c05); the apply path's
// reports (current and late ones); cancellations. Compared with the model at the end of each script: the set of calls
// answered without error, the copy's leader index, the leader's log length. Go oracles after every step: a call that has
// returned without error was told a revision at or below the copy's leader index (read-your-writes); at the end every
// live call whose revision was reported is answered.
func runFwd(args []string) error {
	rf, err := parseFlags("fwd", args, nil)
	if err != nil {
		return err
	}
	r := rf.rng()
	sum := &Summary{Engine: "fwd", Seed: rf.Seed, Rule: "fact scripts (Model/Forward.v) against the real ForwardingKVServer + real IndexNotificationQueue with a counting leader and a harness-driven copy index: final set of acknowledged calls, copy leader index and leader log length equal the model's; no call is acknowledged before the copy's leader index reached its revision; every live call whose revision was reported is acknowledged"}
	cf := &CasesFile{Requires: []string{"Model.Bytes", "Model.Obs", "Model.Forward", "Run.FwdRun"}, CaseType: "fwcase", Check: "fw_check", Show: "fw_model"}
	hk := sum.hist("facts")
	n := rf.count(60, 600)
	tb := []byte("1")
	for c := 0; c < n; c++ {
		q := storage.NewNotificationQueue()
		go q.Run()
		leader := &countingLeader{}
		srv := regattaserver.NewForwardingKVServer(nil, leader, q)
		type call struct {
			id     int
			rev    uint64
			cancel context.CancelFunc
			done   chan error
			res    *error
			canc   bool
		}
		var calls []*call
		var lidx, marker uint64
		var maxNotified uint64
		var facts, descr []string
		barrier := func() { _ = q.Len("1") }
		collect := func() {
			for _, cl := range calls {
				if cl.res == nil {
					select {
					case e := <-cl.done:
						cl.res = &e
					default:
					}
				}
			}
		}
		in := func() map[string]any { return map[string]any{"script": strings.Join(descr, " ; ")} }
		oracle := func() {
			collect()
			for _, cl := range calls {
				if cl.res != nil && *cl.res == nil && cl.rev > lidx {
					sum.violate(c, "a write through a follower node was acknowledged before the node's copy of the table applied it (read-your-writes)", in(), fmt.Sprintf("call %d: revision %d, the copy's leader index is %d", cl.id, cl.rev, lidx))
				}
			}
		}
		steps := 8 + r.Intn(18)
		nextID := 1
		for s := 0; s < steps; s++ {
			switch k := r.Intn(20); {
			case k < 6: // a write through this node
				id := nextID
				nextID++
				ctx, cancel := context.WithCancel(context.Background())
				cl := &call{id: id, cancel: cancel, done: make(chan error, 1)}
				before := leader.len
				lenBefore := q.Len("1")
				kind := id % 3
				go func() {
					var err error
					// every shape of request and of the leader's answer (nothing deleted, failed predicate with an empty
					// branch, previous pairs asked for): the call waits for the revision all the same
					switch kind {
					case 0:
						_, err = srv.Put(ctx, &regattapb.PutRequest{Table: tb, Key: []byte("k"), Value: []byte("v"), PrevKv: id%2 == 0})
					case 1:
						_, err = srv.DeleteRange(ctx, &regattapb.DeleteRangeRequest{Table: tb, Key: []byte("k"), Count: id%2 == 0, PrevKv: id%4 < 2})
					default:
						put := []*regattapb.RequestOp{{Request: &regattapb.RequestOp_RequestPut{RequestPut: &regattapb.RequestOp_Put{Key: []byte("k"), Value: []byte("v")}}}}
						req := &regattapb.TxnRequest{Table: tb, Success: put}
						if id%2 == 0 { // the branch the leader reports as executed is empty
							req = &regattapb.TxnRequest{Table: tb, Compare: []*regattapb.Compare{{Key: []byte("absent")}}, Failure: put}
						}
						_, err = srv.Txn(ctx, req)
					}
					cl.done <- err
				}()
				// wait until the call is queued: the leader answered and the queue knows the waiter
				for dl := time.Now().Add(5 * time.Second); time.Now().Before(dl); time.Sleep(200 * time.Microsecond) {
					leader.mu.Lock()
					l := leader.len
					leader.mu.Unlock()
					if l > before {
						break
					}
				}
				cl.rev = before + 1
				// ... and the queue's event loop has taken the waiter in (Add only pushes; a sweep running at this very moment may
				// have dropped cancelled waiters, hence the short deadline)
				for dl := time.Now().Add(300 * time.Millisecond); time.Now().Before(dl) && q.Len("1") < lenBefore+1; time.Sleep(200 * time.Microsecond) {
				}
				barrier()
				calls = append(calls, cl)
				facts = append(facts, fmt.Sprintf("fwrite %d %d", id, id))
				descr = append(descr, fmt.Sprintf("write#%d(rev %d)", id, cl.rev))
				hk.Inc("write through the node")
			case k < 9:
				leader.append()
				facts = append(facts, "fleader 0")
				descr = append(descr, "other writer")
				hk.Inc("other writer at the leader")
			case k < 10:
				m := uint64(r.Intn(int(leader.len) + 2))
				if m > leader.len {
					m = leader.len
				}
				if m > marker {
					marker = m
				}
				facts = append(facts, fmt.Sprintf("fcompact %d", m))
				descr = append(descr, fmt.Sprintf("compact(%d)", m))
				hk.Inc("log compaction")
			case k < 14:
				nn := uint64(1 + r.Intn(4))
				if lidx >= marker { // otherwise USE_SNAPSHOT: nothing is proposed
					lidx += nn
					if lidx > leader.len {
						lidx = leader.len
					}
				}
				facts = append(facts, fmt.Sprintf("fpoll %d", nn))
				descr = append(descr, fmt.Sprintf("poll(%d)->%d", nn, lidx))
				hk.Inc("replication poll")
			case k < 15:
				lidx = leader.len
				facts = append(facts, "frecover")
				descr = append(descr, fmt.Sprintf("recover->%d", lidx))
				hk.Inc("snapshot recovery")
			case k < 18:
				q.Notify("1", lidx)
				barrier()
				if lidx > maxNotified {
					maxNotified = lidx
				}
				time.Sleep(time.Millisecond)
				facts = append(facts, "fnotify")
				descr = append(descr, fmt.Sprintf("report(%d)", lidx))
				hk.Inc("apply-path report")
			case k < 19:
				v := uint64(r.Intn(int(lidx) + 3))
				w := v
				if w > lidx {
					w = lidx
				}
				q.Notify("1", w)
				barrier()
				if w > maxNotified {
					maxNotified = w
				}
				time.Sleep(time.Millisecond)
				facts = append(facts, fmt.Sprintf("flate %d", v))
				descr = append(descr, fmt.Sprintf("late report(%d)", w))
				hk.Inc("late report")
			default:
				if len(calls) > 0 {
					cl := calls[r.Intn(len(calls))]
					cl.cancel()
					cl.canc = true
					barrier()
					facts = append(facts, fmt.Sprintf("fcancel %d", cl.id))
					descr = append(descr, fmt.Sprintf("cancel#%d", cl.id))
					hk.Inc("cancellation")
				}
			}
			oracle()
		}
		// settle: every released call returns
		var acked []int
		deadline := time.Now().Add(3 * time.Second)
		for {
			collect()
			pending := false
			for _, cl := range calls {
				if cl.res == nil && !cl.canc && cl.rev <= maxNotified {
					pending = true
				}
			}
			if !pending || time.Now().After(deadline) {
				break
			}
			time.Sleep(time.Millisecond)
		}
		oracle()
		for _, cl := range calls {
			if cl.res != nil && *cl.res == nil {
				acked = append(acked, cl.id)
			}
			if cl.res == nil && !cl.canc && cl.rev <= maxNotified {
				sum.violate(c, "a waiting caller is not released although a leader index at or beyond its revision was applied", in(), fmt.Sprintf("call %d: revision %d, reported leader index %d", cl.id, cl.rev, maxNotified))
			}
		}
		for _, cl := range calls {
			cl.cancel()
		}
		_ = q.Close()
		sort.Ints(acked)
		ids := make([]string, len(acked))
		for i, a := range acked {
			ids[i] = oN(int64(a))
		}
		sum.Evaluations++
		if len(acked) > 0 {
			sum.DistinctNontrivial++
		}
		cf.Add(fmt.Sprintf("{| fw_acts := %s; fw_impl := %s |}", cList(facts), oL(oLs(ids), oU(lidx), oU(leader.len))), strings.Join(descr, " ; "))
		if c < 3 {
			sum.Samples = append(sum.Samples, map[string]any{"script": strings.Join(descr, " ; "), "acknowledged": acked, "copy_leader_index": lidx})
		}
	}
	names, err := cf.Write(rf.Out, "fwd", 100)
	if err != nil {
		return err
	}
	sum.CasesFiles = names
	return sum.write(rf.Out, "fwd")
}
