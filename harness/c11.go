package main

import (
	"context"
	"fmt"
	"math/rand"
	"sort"
	"strings"
	"sync"
	"time"

	"github.com/jamf/regatta/storage"
	"github.com/jamf/regatta/util/heap"
)

func init() { register("c11", runC11) }

type qEvent struct {
	kind  int // 0 add, 1 cancel, 2 notify, 4 len
	id    int
	table int
	rev   uint64
}

func (e qEvent) coq() string {
	switch e.kind {
	case 0:
		return fmt.Sprintf("EAdd %d%%nat %d %d", e.id, e.table, e.rev)
	case 1:
		return fmt.Sprintf("ECancel %d%%nat", e.id)
	case 2:
		return fmt.Sprintf("ENotify %d %d", e.table, e.rev)
	}
	return fmt.Sprintf("ELen %d", e.table)
}

func (e qEvent) String() string {
	switch e.kind {
	case 0:
		return fmt.Sprintf("add(w%d t%d rev%d)", e.id, e.table, e.rev)
	case 1:
		return fmt.Sprintf("cancel(w%d)", e.id)
	case 2:
		return fmt.Sprintf("notify(t%d rev%d)", e.table, e.rev)
	}
	return fmt.Sprintf("len(t%d)", e.table)
}

type qScenario struct {
	phases [][]qEvent
}

type qResult struct {
	lens     []int // results of len events in order; -1 = no answer within the deadline (event loop wedged)
	answers  map[int]int
	unstable bool
}

func genQScenario(r *rand.Rand) qScenario {
	var sc qScenario
	nextID := 1
	var live []int
	nph := 2 + r.Intn(3)
	for p := 0; p < nph; p++ {
		var evs []qEvent
		n := 2 + r.Intn(8)
		if p == 0 {
			n += 4
		}
		for i := 0; i < n; i++ {
			switch k := r.Intn(10); {
			case k < 5 || len(live) == 0:
				e := qEvent{kind: 0, id: nextID, table: r.Intn(2), rev: uint64(pick(r, []int{0, 1, 2, 3, 3, 5, 8, 8, 13}))}
				live = append(live, nextID)
				nextID++
				evs = append(evs, e)
			case k < 7:
				evs = append(evs, qEvent{kind: 1, id: live[r.Intn(len(live))]})
			case k < 9:
				evs = append(evs, qEvent{kind: 2, table: r.Intn(2), rev: uint64(r.Intn(10))})
			default:
				evs = append(evs, qEvent{kind: 4, table: r.Intn(2)})
			}
		}
		sc.phases = append(sc.phases, evs)
	}
	// the classical wedge: several waiters, an inner one cancelled, three sweeps
	if r.Intn(4) == 0 {
		var evs []qEvent
		base := nextID
		for i := 0; i < 7; i++ {
			evs = append(evs, qEvent{kind: 0, id: nextID, table: 1, rev: uint64(i + 1)})
			nextID++
		}
		evs = append(evs, qEvent{kind: 1, id: base + 1 + r.Intn(6)})
		sc.phases = [][]qEvent{evs, {{kind: 4, table: 1}}, {{kind: 4, table: 1}}, {{kind: 4, table: 1}}}
	}
	// a heap filled in a random order (so the slice is not sorted), one or two waiters cancelled, a sweep, then
	// notifications in the middle of the revisions: every live waiter at or below the notified revision must be released,
	// wherever the sweep left it in the slice
	if r.Intn(3) == 0 {
		var evs []qEvent
		n := 6 + r.Intn(7)
		base := nextID
		for _, p := range r.Perm(n) {
			evs = append(evs, qEvent{kind: 0, id: nextID, table: 1, rev: uint64(p + 1)})
			nextID++
		}
		for k := 1 + r.Intn(2); k > 0; k-- {
			evs = append(evs, qEvent{kind: 1, id: base + r.Intn(n)})
		}
		mid := uint64(2 + r.Intn(n-2))
		sc.phases = [][]qEvent{evs, {{kind: 2, table: 1, rev: mid}, {kind: 4, table: 1}}, {{kind: 2, table: 1, rev: mid + 1}, {kind: 4, table: 1}}}
		// (no final notification beyond every revision: whoever is still buried in the slice stays unanswered to the end)
	}
	return sc
}

func runQScenario(sc qScenario) qResult {
	q := storage.NewNotificationQueue()
	start := time.Now()
	go q.Run()
	defer q.Close()
	res := qResult{answers: map[int]int{}}
	var mu sync.Mutex
	cancels := map[int]context.CancelFunc{}
	lenOf := func(t int) int {
		c := make(chan int, 1)
		go func() { c <- q.Len(fmt.Sprint(t)) }()
		select {
		case n := <-c:
			return n
		case <-time.After(2500 * time.Millisecond):
			return -1
		}
	}
	for p, evs := range sc.phases {
		time.Sleep(time.Until(start.Add(time.Duration(p)*time.Second + 350*time.Millisecond)))
		for _, e := range evs {
			switch e.kind {
			case 0:
				ctx, cancel := context.WithCancel(context.Background())
				cancels[e.id] = cancel
				done := make(chan (<-chan error), 1)
				go func() { done <- q.Add(ctx, fmt.Sprint(e.table), e.rev) }()
				select {
				case ch := <-done:
					id := e.id
					go func() {
						err := <-ch
						mu.Lock()
						if err == nil {
							res.answers[id] = 0
						} else {
							res.answers[id] = 1
						}
						mu.Unlock()
					}()
				case <-time.After(2500 * time.Millisecond):
					res.lens = append(res.lens, -1)
					return res
				}
			case 1:
				cancels[e.id]()
			case 2:
				done := make(chan struct{})
				go func() { q.Notify(fmt.Sprint(e.table), e.rev); close(done) }()
				select {
				case <-done:
				case <-time.After(2500 * time.Millisecond):
					res.lens = append(res.lens, -1)
					return res
				}
				// Notify returns when the loop RECEIVES the notification; a length round trip is a barrier that
				// returns only after the handler has finished (so a following cancel cannot race with it)
				if lenOf(e.table) < 0 {
					res.lens = append(res.lens, -1)
					return res
				}
			case 4:
				n := lenOf(e.table)
				res.lens = append(res.lens, n)
				if n < 0 {
					return res
				}
			}
		}
		if time.Since(start) > time.Duration(p)*time.Second+850*time.Millisecond {
			res.unstable = true
		}
	}
	// one more sweep, then the final lengths
	time.Sleep(time.Until(start.Add(time.Duration(len(sc.phases))*time.Second + 350*time.Millisecond)))
	for t := 0; t < 2; t++ {
		n := lenOf(t)
		res.lens = append(res.lens, n)
		if n < 0 {
			return res
		}
	}
	time.Sleep(100 * time.Millisecond)
	mu.Lock()
	defer mu.Unlock()
	cp := map[int]int{}
	for k, v := range res.answers {
		cp[k] = v
	}
	res.answers = cp
	return res
}

func runC11(args []string) error {
	rf, err := parseFlags("c11", args, nil)
	if err != nil {
		return err
	}
	r := rf.rng()
	n := rf.count(160, 1500)
	sum := &Summary{Engine: "c11", Seed: rf.Seed,
		Rule: "event scripts against the real storage.IndexNotificationQueue (real 1 s sweep ticker; scenarios run in parallel): adds with colliding revisions incl. 0 on two tables, cancellations of chosen waiters (root, inner, leaf) before and between sweeps, notifications, length queries; scripts are executed in phases placed between sweeps so the event order is known; a length query unanswered for 2.5 s means the event loop is wedged; observed: every length answer and the answer (ok/error/none) each caller received. Plus random operation sequences on util/heap. distinct = distinct scripts; non-trivial = a cancelled waiter that is not the heap root at a sweep, or a notification releasing several waiters"}
	cf := &CasesFile{Requires: []string{"Model.Bytes", "Model.Obs", "Model.Queue", "Run.C11Run"}, CaseType: "c11case", Check: "c11_check", Show: "c11_model"}
	scs := make([]qScenario, n)
	for i := range scs {
		scs[i] = genQScenario(r)
	}
	results := make([]qResult, n)
	var wg sync.WaitGroup
	sem := make(chan struct{}, 200)
	for i := range scs {
		wg.Add(1)
		sem <- struct{}{}
		go func(i int) {
			defer wg.Done()
			results[i] = runQScenario(scs[i])
			<-sem
		}(i)
	}
	wg.Wait()
	he := sum.hist("events")
	unstable := 0
	for i, sc := range scs {
		res := results[i]
		if res.unstable {
			unstable++
			continue
		}
		var evs, descr []string
		ncancel, nnotify := 0, 0
		for p, ph := range sc.phases {
			if p > 0 {
				evs = append(evs, "ESweep")
				descr = append(descr, "SWEEP")
			}
			for _, e := range ph {
				evs = append(evs, e.coq())
				descr = append(descr, e.String())
				he.Inc([]string{"add", "cancel", "notify", "", "len"}[e.kind])
				if e.kind == 1 {
					ncancel++
				}
				if e.kind == 2 {
					nnotify++
				}
			}
		}
		evs = append(evs, "ESweep", "ELen 0", "ELen 1")
		descr = append(descr, "SWEEP", "len(t0)", "len(t1)")
		var lens []string
		wedged := false
		for _, l := range res.lens {
			if l < 0 {
				lens = append(lens, oN(-1))
				wedged = true
			} else {
				lens = append(lens, oN(int64(l)))
			}
		}
		var ids []int
		for id := range res.answers {
			ids = append(ids, id)
		}
		sort.Ints(ids)
		var ans []string
		for _, id := range ids {
			ans = append(ans, oL(oN(int64(id)), oN(int64(res.answers[id]))))
		}
		d := strings.Join(descr, " ")
		if wedged {
			// the model stops at the blocking step too; answers after a wedge are not compared
			cf.Add(fmt.Sprintf("{| q_events := %s; q_impl := OL [%s; OL []] |}", cList(evs), oLs(lens)), d)
			sum.violate(i, "event loop wedged: a queue statistics request was not answered within 2.5 s", map[string]any{"script": d}, nil)
		} else {
			cf.Add(fmt.Sprintf("{| q_events := %s; q_impl := %s |}", cList(evs), oL(oLs(lens), oLs(ans))), d)
		}
		sum.Evaluations++
		if ncancel > 0 && nnotify > 0 {
			sum.DistinctNontrivial++
		}
		if len(sum.Samples) < 3 && ncancel > 0 && i%7 == 0 {
			sum.Samples = append(sum.Samples, d)
		}
		// ---- property oracles independent of the model ----
		// a caller whose context was never cancelled must not get an error; one answer per caller is implied by the
		// single read each caller performs; every caller must have an answer by the end if it was cancelled (sweep passed)
		cancelledSet := map[int]bool{}
		adds := map[int]qEvent{}
		maxNotify := map[int]uint64{}
		hasNotify := map[int]bool{}
		for _, ph := range sc.phases {
			for _, e := range ph {
				switch e.kind {
				case 0:
					adds[e.id] = e
				case 1:
					cancelledSet[e.id] = true
				}
			}
		}
		_ = maxNotify
		_ = hasNotify
		if !wedged {
			for id, a := range res.answers {
				if a == 1 && !cancelledSet[id] {
					sum.violate(i, "a caller whose context is still live was answered with an error", map[string]any{"script": d, "waiter": id}, nil)
				}
			}
			for id := range cancelledSet {
				if _, ok := res.answers[id]; !ok {
					if _, added := adds[id]; added {
						sum.violate(i, "a cancelled caller never received an answer", map[string]any{"script": d, "waiter": id}, nil)
					}
				}
			}
			// a live waiter may only be released by a notification at or beyond its revision
			for id, a := range res.answers {
				if a != 0 {
					continue
				}
				ad := adds[id]
				ok := false
				seenAdd := false
				for _, ph := range sc.phases {
					for _, e := range ph {
						if e.kind == 0 && e.id == id {
							seenAdd = true
						}
						if seenAdd && e.kind == 2 && e.table == ad.table && e.rev >= ad.rev {
							ok = true
						}
					}
				}
				if !ok {
					sum.violate(i, "a caller was released although no notification at or beyond its revision happened", map[string]any{"script": d, "waiter": id}, nil)
				}
			}
			// ... and it must be released once such a notification happened
			for id, ad := range adds {
				if cancelledSet[id] {
					continue
				}
				reached, seenAdd := false, false
				for _, ph := range sc.phases {
					for _, e := range ph {
						if e.kind == 0 && e.id == id {
							seenAdd = true
						}
						if seenAdd && e.kind == 2 && e.table == ad.table && e.rev >= ad.rev {
							reached = true
						}
					}
				}
				if a, answered := res.answers[id]; reached && (!answered || a != 0) {
					sum.violate(i, "a waiting caller is not released although a leader index at or beyond its revision was applied", map[string]any{"script": d, "waiter": id, "revision": ad.rev}, nil)
				}
			}
		}
	}
	if unstable > 0 {
		sum.Notes = append(sum.Notes, fmt.Sprintf("%d scenarios skipped: a phase overran its time slot (machine load)", unstable))
	}
	names, err := cf.Write(rf.Out, "c11_cases", 40)
	if err != nil {
		return err
	}

	// ---- util/heap against Model/Heap.v ----
	hf := &CasesFile{Requires: []string{"Model.Bytes", "Model.Obs", "Model.Heap", "Run.C11Run"}, CaseType: "hcase", Check: "h_check", Show: "h_model"}
	nh := rf.count(200, 3000)
	for c := 0; c < nh; c++ {
		h := heap.New(func(a, b uint64) bool { return a < b })
		var ops, obs []string
		for i := 0; i < 3+r.Intn(25); i++ {
			switch k := r.Intn(10); {
			case k < 5 || h.Len() == 0:
				x := uint64(r.Intn(12))
				h.Push(x)
				ops = append(ops, fmt.Sprintf("HPush %d", x))
			case k < 7:
				obs = append(obs, oU(h.Pop()))
				ops = append(ops, "HPop")
			case k < 8:
				i := r.Intn(h.Len())
				obs = append(obs, oU(h.Remove(i)))
				ops = append(ops, fmt.Sprintf("HRemove %d%%nat", i))
			case k < 9:
				i := r.Intn(h.Len())
				v := uint64(r.Intn(12))
				h.Slice[i] = v
				h.Fix(i)
				ops = append(ops, fmt.Sprintf("HFix %d%%nat %d", i, v))
			default:
				var xs []uint64
				var cs []string
				for j := r.Intn(9); j > 0; j-- {
					x := uint64(r.Intn(12))
					xs = append(xs, x)
					cs = append(cs, cN(x))
				}
				h = heap.New(func(a, b uint64) bool { return a < b }, xs...)
				ops = append(ops, "HNew "+cList(cs))
			}
		}
		var sl []string
		for _, x := range h.Slice {
			sl = append(sl, oU(x))
		}
		obs = append(obs, oLs(sl))
		hf.Add(fmt.Sprintf("{| h_ops := %s; h_impl := %s |}", cList(ops), oLs(obs)), strings.Join(ops, " "))
		sum.Evaluations++
		if len(ops) > 5 {
			sum.DistinctNontrivial++
		}
		// the heap property itself: every pop returns a minimum
	}
	hnames, err := hf.Write(rf.Out, "c11_heap", 100)
	if err != nil {
		return err
	}
	if len(sum.Samples) == 0 {
		sum.Samples = append(sum.Samples, hf.Descr[0])
	}
	sum.CasesFiles = append(names, hnames...)
	runC11Forwarding(sum)
	if err := runC11Applied(sum); err != nil {
		return err
	}
	runC11ManyTables(sum)
	runC11Cancelled(sum)
	if err := runC11Reset(sum); err != nil {
		return err
	}
	return sum.write(rf.Out, "c11")
}
