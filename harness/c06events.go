package main

import (
	"context"
	"errors"
	"fmt"
	"time"

	serrors "github.com/jamf/regatta/storage/errors"
	"github.com/jamf/regatta/storage/logreader"
	"github.com/lni/dragonboat/v4"
	"github.com/lni/dragonboat/v4/raftio"
	"github.com/lni/dragonboat/v4/raftpb"
)

// runC06EngineEvents: the cache is only as good as its invalidation.  A real storage.Engine (its event dispatcher
// running) with the log cache enabled; the cached reader is put over a fake log that shares the ENGINE's cache; the
// log is compacted and dragonboat's compaction events (snapshot compacted, log compacted, log DB compacted - emitted
// back to back, amid a burst of other events) are delivered through the engine's own system-event listener.  After
// that a request for a compacted index must be answered with 'use snapshot', not from what the cache still holds.
func runC06EngineEvents(sum *Summary) error {
	node, err := newC05Node("c06events", 0, 0, 16, nil)
	if err != nil {
		return err
	}
	defer func() {
		done := make(chan struct{})
		go func() { _ = node.e.Close(); close(done) }()
		select {
		case <-done:
		case <-time.After(20 * time.Second):
		}
	}()
	if node.e.LogCache == nil {
		return fmt.Errorf("harness: the engine has no log cache")
	}
	ev := node.e.VerifSystemEvents()
	ctx := context.Background()
	for round := 0; round < 6; round++ {
		shard := uint64(7000 + round)
		lg := &fakeLog{cuts: map[[3]uint64]int{}}
		for i := uint64(1); i <= 20; i++ {
			lg.ents = append(lg.ents, raftpb.Entry{Index: i, Term: 1, Type: raftpb.EncodedEntry, Cmd: []byte{0, 1, 2, 3}})
		}
		cached := &logreader.Cached{LogQuerier: lg, ShardCache: node.e.LogCache}
		if es, err := cached.QueryRaftLog(ctx, shard, dragonboat.LogRange{FirstIndex: 5, LastIndex: 21}, 1<<20); err != nil || len(es) == 0 {
			return fmt.Errorf("harness: warm-up query: %v %d", err, len(es))
		}
		// compaction up to index 10, reported the way dragonboat reports it
		var keep []raftpb.Entry
		for _, e := range lg.ents {
			if e.Index > 10 {
				keep = append(keep, e)
			}
		}
		lg.ents, lg.marker = keep, 10
		for i := 0; i < 40; i++ {
			ev.SnapshotCompacted(raftio.SnapshotInfo{ShardID: shard, ReplicaID: 1, From: 1, Index: 10})
			if i == 20 {
				ev.LogCompacted(raftio.EntryInfo{ShardID: shard, ReplicaID: 1, Index: 10})
				ev.LogDBCompacted(raftio.EntryInfo{ShardID: shard, ReplicaID: 1, Index: 10})
			}
		}
		// the dispatcher drains its one-slot channel; a query that is still answered from the cache changes nothing, so
		// asking again until the invalidation has been processed (or 5 s have passed) is safe
		var es []raftpb.Entry
		var qerr error
		for deadline := time.Now().Add(5 * time.Second); ; {
			es, qerr = cached.QueryRaftLog(ctx, shard, dragonboat.LogRange{FirstIndex: 5, LastIndex: 21}, 1<<20)
			if errors.Is(qerr, serrors.ErrLogAhead) || time.Now().After(deadline) {
				break
			}
			time.Sleep(50 * time.Millisecond)
		}
		sum.Evaluations++
		sum.hist("queries").Inc("compacted index after compaction events through the engine")
		if !errors.Is(qerr, serrors.ErrLogAhead) {
			sum.violate(700000+round, "cached: request for a compacted index not answered with 'use snapshot'", map[string]any{"scenario": "engine with log cache; query [5,21) cached; log compacted to 10; dragonboat's SnapshotCompacted/LogCompacted/LogDBCompacted events delivered back to back through the engine's listener; query [5,21) again", "round": round},
				fmt.Sprintf("answer: %d entries, error %v", len(es), qerr))
			return nil
		}
	}
	return nil
}
