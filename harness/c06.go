package main

import (
	"context"
	"errors"
	"fmt"
	"math/rand"
	"reflect"
	"sort"
	"strings"

	"github.com/jamf/regatta/regattapb"
	"github.com/jamf/regatta/regattaserver"
	serrors "github.com/jamf/regatta/storage/errors"
	"github.com/jamf/regatta/storage/logreader"
	"github.com/jamf/regatta/storage/table"
	"github.com/jamf/regatta/storage/table/fsm"
	"github.com/lni/dragonboat/v4"
	"github.com/lni/dragonboat/v4/client"
	"github.com/lni/dragonboat/v4/raftpb"
	sm "github.com/lni/dragonboat/v4/statemachine"
	"go.uber.org/zap"
	"google.golang.org/grpc"
)

func init() { register("c06", runC06) }

// fakeLog implements dragonboat.ReadonlyLogReader by its contract: GetRange = (marker+1, last);
// Entries(lo,hi,max) = ErrCompacted below the marker, else a non-empty prefix of [lo,hi) cut by size like the
// library does and, sometimes, shorter (a deterministic function of (lo,hi,max,salt)).
type fakeLog struct {
	marker uint64
	ents   []raftpb.Entry
	salt   uint64
	cuts   map[[3]uint64]int
}

func (l *fakeLog) GetLogReader(uint64) (dragonboat.ReadonlyLogReader, error) { return l, nil }
func (l *fakeLog) last() uint64                                              { return l.marker + uint64(len(l.ents)) }
func (l *fakeLog) GetRange() (uint64, uint64)                                { return l.marker + 1, l.last() }
func (l *fakeLog) NodeState() (raftpb.State, raftpb.Membership) {
	return raftpb.State{}, raftpb.Membership{}
}
func (l *fakeLog) Term(uint64) (uint64, error) { return 1, nil }
func (l *fakeLog) Snapshot() raftpb.Snapshot   { return raftpb.Snapshot{Index: l.marker} }

var errCompacted = errors.New("compacted")

func (l *fakeLog) Entries(lo, hi, maxSize uint64) ([]raftpb.Entry, error) {
	if lo <= l.marker {
		return nil, errCompacted
	}
	var avail []raftpb.Entry
	for _, e := range l.ents {
		if e.Index >= lo && e.Index < hi {
			avail = append(avail, e)
		}
	}
	if len(avail) == 0 {
		return nil, nil
	}
	// size policy of internal/logdb: take entries until the size exceeds maxSize, then drop the last if more than one
	n, size := 0, uint64(0)
	for n < len(avail) {
		size += uint64(avail[n].SizeUpperLimit())
		n++
		if size > maxSize {
			break
		}
	}
	if size > maxSize && n > 1 {
		n--
	}
	// an additional library-internal cut
	h := (lo*2654435761 + hi*40503 + maxSize*7 + l.salt) % 7
	if h < 2 && n > 1 {
		n = 1 + int(h)%n
	}
	l.cuts[[3]uint64{lo, hi, maxSize}] = n
	return append([]raftpb.Entry(nil), avail[:n]...), nil
}

// a raft handler that only answers index reads
type idxHost struct{ applied uint64 }

func (h *idxHost) SyncRead(context.Context, uint64, interface{}) (interface{}, error) {
	return &fsm.IndexResponse{Index: h.applied}, nil
}
func (h *idxHost) StaleRead(uint64, interface{}) (interface{}, error) {
	return &fsm.IndexResponse{Index: h.applied}, nil
}
func (h *idxHost) SyncPropose(context.Context, *client.Session, []byte) (sm.Result, error) {
	return sm.Result{}, errors.New("unexpected")
}
func (h *idxHost) GetNoOPSession(id uint64) *client.Session { return &client.Session{ShardID: id} }

type oneTable struct {
	regattaserver.TableService
	t table.ActiveTable
}

func (o oneTable) GetTable(string) (table.ActiveTable, error) { return o.t, nil }

type fakeReplStream struct {
	grpc.ServerStream
	msgs []*regattapb.ReplicateResponse
}

func (f *fakeReplStream) Send(m *regattapb.ReplicateResponse) error {
	bts, err := m.MarshalVT()
	if err != nil {
		return err
	}
	cp := &regattapb.ReplicateResponse{}
	if err := cp.UnmarshalVT(bts); err != nil {
		return err
	}
	f.msgs = append(f.msgs, cp)
	return nil
}
func (f *fakeReplStream) Context() context.Context { return context.Background() }

func oEntries(es []raftpb.Entry, err error, payloadOf map[uint64]uint64) string {
	if err != nil {
		if errors.Is(err, serrors.ErrLogBehind) {
			return oN(-1)
		}
		if errors.Is(err, serrors.ErrLogAhead) {
			return oN(-2)
		}
		return oN(-9)
	}
	parts := make([]string, len(es))
	for i, e := range es {
		parts[i] = oL(oU(e.Index), oU(payloadOf[e.Index]))
	}
	return oLs(parts)
}

func runC06(args []string) error {
	rf, err := parseFlags("c06", args, nil)
	if err != nil {
		return err
	}
	r := rf.rng()
	n := rf.count(400, 8000)
	sum := &Summary{Engine: "c06", Seed: rf.Seed,
		Rule: "random scenarios over the real logreader.Simple, logreader.Cached (cache sizes 1-12) and regattaserver.LogServer.Replicate on a contract-faithful fake of dragonboat's log reader: logs of encoded/empty/config-change entries with sizes skewed around the message-size limit, appends, compactions (with cache invalidation; also with the invalidation delivered as dragonboat's compaction events through a real storage.Engine's event listener), query sequences with every start index in 1..applied+2 shaping the cache, end of range always applied+1 with applied growing; oracles: answer non-empty, consecutive from the requested index, own indices, none beyond applied, cached answer a prefix of the uncut simple answer, stream = log entries F..applied ended by the up-to-date message; distinct = distinct scenarios; non-trivial = a cache hit that needed a prepend or append read and an entry at least as large as the limit"}
	cf := &CasesFile{Requires: []string{"Model.Bytes", "Model.Obs", "Model.LogReader", "Run.C06Run"}, CaseType: "c06case", Check: "c06_check", Show: "c06_model"}
	hq := sum.hist("queries")
	ctx := context.Background()
	seen := map[string]bool{}
	for c := 0; c < n; c++ {
		marker := uint64(r.Intn(4))
		lg := &fakeLog{marker: marker, salt: uint64(r.Intn(1000)), cuts: map[[3]uint64]int{}}
		csize := 1 + r.Intn(12)
		cached := &logreader.Cached{LogQuerier: lg, ShardCache: logreader.NewShardCache(csize)}
		simple := &logreader.Simple{LogQuerier: lg}
		payloadOf := map[uint64]uint64{}
		maxSize := uint64(pick(r, []int{150, 200, 400, 1000, 100000}))
		applied := marker
		var steps, obs, descr []string
		bigEntry, cacheAssist := false, false
		appendEntries := func(k int) {
			var es []string
			for i := 0; i < k; i++ {
				idx := lg.last() + 1
				e := raftpb.Entry{Index: idx, Term: 1}
				pay := uint64(0)
				switch r.Intn(8) {
				case 0:
					e.Type = raftpb.ApplicationEntry // empty entry
				case 1:
					e.Type = raftpb.ConfigChangeEntry
					e.Cmd = []byte{1, 2, 3}
				default:
					e.Type = raftpb.EncodedEntry
					pay = 1000 + idx
					sz := pick(r, []int{1, 10, 30, 80, 300, 900})
					cmd := gCmd{Kind: regattapb.Command_PUT, K: []byte(fmt.Sprintf("k%d", pay)), V: make([]byte, sz)}
					if r.Intn(4) == 0 {
						// a command that was itself replicated (a chained follower promoted to leader) or a reset marker
						// carries a leader index of its own in the payload: the stream must relabel it
						li := uint64(r.Intn(3)) * 7
						cmd.Leader = &li
						hq.Inc("payload carrying its own leader index")
					}
					_, bts := wireNormal(cmd)
					e.Cmd = append([]byte{0}, bts...)
				}
				payloadOf[idx] = pay
				lg.ents = append(lg.ents, e)
				if uint64(e.SizeUpperLimit()) >= maxSize {
					bigEntry = true
				}
				es = append(es, fmt.Sprintf("le %d %d %d %s", idx, pay, e.SizeUpperLimit(), cBool(e.Type == raftpb.EncodedEntry)))
			}
			steps = append(steps, "LAppend "+cList(es))
			descr = append(descr, fmt.Sprintf("append %d", k))
		}
		appendEntries(1 + r.Intn(8))
		applied = lg.last() - uint64(r.Intn(2))
		if applied < marker {
			applied = marker
		}
		nst := 3 + r.Intn(10)
		var ends []uint64
		boundary := false
		for s := 0; s < nst; s++ {
			switch k := r.Intn(12); {
			case k < 2:
				appendEntries(1 + r.Intn(5))
				applied = lg.last() - uint64(r.Intn(2))
			case k < 3 && lg.last() > lg.marker+1:
				m := lg.marker + 1 + uint64(r.Intn(int(lg.last()-lg.marker-1)))
				if m > applied {
					m = applied
				}
				if m <= lg.marker {
					continue
				}
				var keep []raftpb.Entry
				for _, e := range lg.ents {
					if e.Index > m {
						keep = append(keep, e)
					}
				}
				lg.ents, lg.marker = keep, m
				if err := notifyCompacted(cached, 7, m); err != nil {
					return err
				}
				boundary = r.Intn(2) == 0
				steps = append(steps, fmt.Sprintf("LCompact %d", m))
				descr = append(descr, fmt.Sprintf("compact %d", m))
			case k < 10:
				var f uint64
				if r.Intn(3) == 0 {
					f = 1 + uint64(r.Intn(int(applied)+2))
				} else { // mostly inside the log
					f = lg.marker + 1 + uint64(r.Intn(int(applied-lg.marker)+2))
				}
				if boundary && lg.marker > 0 {
					f = lg.marker - uint64(r.Intn(2)) // the compaction index itself and the one below
					if f == 0 {
						f = 1
					}
					hq.Inc("query at the compaction boundary")
				}
				boundary = false
				la := applied + 1
				// LogServer.Replicate computes the end of the range once per call and keeps it for all queries of the
				// stream, while other streams (started later, with a larger applied index) shape the cache: an end that is
				// older than what the cache has already seen
				if len(ends) > 0 && r.Intn(4) == 0 {
					if old := ends[r.Intn(len(ends))]; old > lg.marker+1 {
						la = old
						if f > la {
							f = lg.marker + 1 + uint64(r.Intn(int(la-lg.marker)))
						}
						hq.Inc("query with an older end")
					}
				}
				ends = append(ends, applied+1)
				rg := dragonboat.LogRange{FirstIndex: f, LastIndex: la}
				sa, serr := simple.QueryRaftLog(ctx, 7, rg, maxSize)
				ncuts := len(lg.cuts)
				ca, cerr := cached.QueryRaftLog(ctx, 7, rg, maxSize)
				if len(lg.cuts) > ncuts || cerr == nil && len(ca) > 0 {
					cacheAssist = true
				}
				steps = append(steps, fmt.Sprintf("LQuery %d %d %d", f, la, maxSize))
				obs = append(obs, oL(oEntries(sa, serr, payloadOf), oEntries(ca, cerr, payloadOf)))
				descr = append(descr, fmt.Sprintf("query[%d,%d) max %d", f, la, maxSize))
				hq.Inc("query")
				// ---- oracles ----
				in := map[string]any{"scenario": strings.Join(descr, " ; "), "marker": lg.marker, "last": lg.last(), "applied": applied, "cache_size": csize}
				for name, ans := range map[string]struct {
					es  []raftpb.Entry
					err error
				}{"simple": {sa, serr}, "cached": {ca, cerr}} {
					switch {
					case f == la:
						if ans.err != nil || len(ans.es) != 0 {
							sum.violate(c, name+": request at applied+1 not answered with an empty batch", in, nil)
						}
					case f <= lg.marker:
						if !errors.Is(ans.err, serrors.ErrLogAhead) {
							sum.violate(c, name+": request for a compacted index not answered with 'use snapshot'", in, fmt.Sprint(ans.err, len(ans.es)))
						}
					case f > la:
						// beyond applied+1: classified by the server before the reader is asked
					default:
						if ans.err != nil {
							sum.violate(c, name+": error for a readable range", in, fmt.Sprint(ans.err))
						} else if len(ans.es) == 0 {
							sum.violate(c, name+": non-empty requested range yields no entry", in, nil)
						} else {
							for i, e := range ans.es {
								if e.Index != f+uint64(i) || e.Index > applied {
									sum.violate(c, name+": entries not consecutive from the requested index or beyond applied", in, fmt.Sprint(i, e.Index))
									break
								}
							}
						}
					}
				}
			default:
				from := lg.marker + uint64(r.Intn(int(applied-lg.marker)+3))
				if from == 0 {
					from = 1
				}
				h := &idxHost{applied: applied}
				srv := regattaserver.NewLogServer(oneTable{t: table.Table{Name: "t", ClusterID: 7}.AsActive(h)}, cached, zap.NewNop(), maxSize)
				st := &fakeReplStream{}
				if err := srv.Replicate(&regattapb.ReplicateRequest{Table: []byte("t"), LeaderIndex: from}, st); err != nil {
					return err
				}
				var ms []string
				var streamed []uint64
				for _, m := range st.msgs {
					switch x := m.Response.(type) {
					case *regattapb.ReplicateResponse_ErrorResponse:
						if x.ErrorResponse.Error == regattapb.ReplicateError_LEADER_BEHIND {
							ms = append(ms, oN(-1))
						} else {
							ms = append(ms, oN(-2))
						}
					case *regattapb.ReplicateResponse_CommandsResponse:
						var cs []string
						for _, rc := range x.CommandsResponse.Commands {
							streamed = append(streamed, rc.LeaderIndex)
							if rc.Command.Type == regattapb.Command_DUMMY {
								cs = append(cs, oL(oN(-1), oU(rc.LeaderIndex)))
							} else {
								cs = append(cs, oL(oU(payloadOf[rc.LeaderIndex]), oU(rc.LeaderIndex)))
							}
							if rc.Command.GetLeaderIndex() != rc.LeaderIndex {
								sum.violate(c, "streamed command not labelled with its own index", map[string]any{"scenario": strings.Join(descr, " ; ")}, nil)
							}
						}
						ms = append(ms, oL(oU(m.LeaderIndex), oLs(cs)))
					default:
						ms = append(ms, oL(oU(m.LeaderIndex)))
					}
				}
				steps = append(steps, fmt.Sprintf("LReplicate %d %d %d", from, applied, maxSize))
				obs = append(obs, oLs(ms))
				descr = append(descr, fmt.Sprintf("replicate from %d (applied %d) max %d", from, applied, maxSize))
				hq.Inc("replicate")
				in := map[string]any{"scenario": strings.Join(descr, " ; "), "marker": lg.marker, "last": lg.last(), "applied": applied, "cache_size": csize}
				if from > lg.marker && from <= applied+1 {
					ok := len(streamed) == int(applied+1-from)
					for i, x := range streamed {
						if x != from+uint64(i) {
							ok = false
						}
					}
					if !ok {
						sum.violate(c, "replication stream is not exactly the log entries from the requested index to applied", in, fmt.Sprint(streamed))
					}
					last := st.msgs[len(st.msgs)-1]
					if last.Response != nil || last.LeaderIndex != applied {
						sum.violate(c, "replication stream not terminated by the up-to-date message carrying the applied index", in, nil)
					}
				}
			}
		}
		var cuts []string
		for k, v := range lg.cuts {
			cuts = append(cuts, fmt.Sprintf("(%d, %d, %d, %d%%nat)", k[0], k[1], k[2], v))
		}
		sort.Strings(cuts)
		d := strings.Join(descr, " ; ")
		cf.Add(fmt.Sprintf("{| l_marker := %d; l_csize := %d%%nat; l_cuts := %s; l_steps := %s; l_impl := %s |}", marker, csize, cList(cuts), cList(steps), oLs(obs)), d)
		if !seen[d] && bigEntry && cacheAssist {
			sum.DistinctNontrivial++
		}
		seen[d] = true
		if len(sum.Samples) < 3 && bigEntry && cacheAssist && c%11 == 0 {
			sum.Samples = append(sum.Samples, d)
		}
	}
	sum.Evaluations = n
	if err := runC06EngineEvents(sum); err != nil {
		return err
	}
	if len(sum.Samples) == 0 {
		sum.Samples = append(sum.Samples, cf.Descr[0])
	}
	names, err := cf.Write(rf.Out, "c06_cases", 40)
	if err != nil {
		return err
	}
	sum.CasesFiles = names
	return sum.write(rf.Out, "c06")
}

var _ = rand.Int

// notifyCompacted delivers dragonboat's LogCompacted event to the cache.  Called by name so that the harness keeps
// building when the notification carries the compaction index as well (both shapes mean: the log of the shard was
// compacted up to and including index).
func notifyCompacted(c any, shard, index uint64) error {
	m := reflect.ValueOf(c).MethodByName("LogCompacted")
	if !m.IsValid() {
		return fmt.Errorf("harness: the log cache has no LogCompacted method")
	}
	switch m.Type().NumIn() {
	case 1:
		m.Call([]reflect.Value{reflect.ValueOf(shard)})
	case 2:
		m.Call([]reflect.Value{reflect.ValueOf(shard), reflect.ValueOf(index)})
	default:
		return fmt.Errorf("harness: unexpected LogCompacted signature %v", m.Type())
	}
	return nil
}
