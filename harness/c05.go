package main

import (
	"bytes"
	"context"
	"flag"
	"fmt"
	"io"
	"math/rand"
	"net"
	"os"
	"runtime"
	"sort"
	"strings"
	"sync"
	"sync/atomic"
	"time"

	pvfs "github.com/cockroachdb/pebble/vfs"
	"github.com/jamf/regatta/regattapb"
	"github.com/jamf/regatta/regattaserver"
	"github.com/jamf/regatta/replication"
	"github.com/jamf/regatta/replication/snapshot"
	"github.com/jamf/regatta/storage"
	"github.com/jamf/regatta/storage/table"
	"github.com/lni/dragonboat/v4"
	"github.com/lni/dragonboat/v4/raftpb"
	sm "github.com/lni/dragonboat/v4/statemachine"
	lvfs "github.com/lni/vfs"
	"go.uber.org/zap"
	"google.golang.org/grpc"
	"google.golang.org/grpc/credentials/insecure"
)

func init() { register("c05", runC05) }

func freeAddr() string {
	l, err := net.Listen("tcp", "127.0.0.1:0")
	if err != nil {
		panic(err)
	}
	defer l.Close()
	return l.Addr().String()
}

// ---- one engine (leader cluster or follower cluster), single node, in memory ----

type c05node struct {
	e        *storage.Engine
	fs       lvfs.FS
	tfs      pvfs.FS
	raftAddr string
	name     string
	cfgFn    func() storage.Config
}

func newC05Node(name string, snapshotEntries, compactionOverhead uint64, logCache int, listener func(table string, rev uint64)) (*c05node, error) {
	n := &c05node{fs: lvfs.NewMem(), tfs: pvfs.NewMem(), raftAddr: freeAddr(), name: name}
	n.cfgFn = func() storage.Config {
		return storage.Config{
			FS:             n.fs,
			Log:            zap.NewNop().Sugar(),
			InitialMembers: map[uint64]string{1: n.raftAddr},
			Gossip:         storage.GossipConfig{BindAddress: freeAddr(), ClusterName: name},
			NodeID:         1,
			RTTMillisecond: 2,
			RaftAddress:    n.raftAddr,
			LogCacheSize:   logCache,
			Table: storage.TableConfig{HeartbeatRTT: 1, ElectionRTT: 5, FS: n.tfs, MaxInMemLogSize: 1024 * 1024, BlockCacheSize: 1024 * 1024, TableCacheSize: 1024,
				SnapshotEntries: snapshotEntries, CompactionOverhead: compactionOverhead, AppliedIndexListener: listener},
			Meta: storage.MetaConfig{HeartbeatRTT: 1, ElectionRTT: 5},
		}
	}
	return n, n.start()
}

func (n *c05node) start() error {
	e, err := storage.New(n.cfgFn())
	if err != nil {
		return err
	}
	if err := e.Start(); err != nil {
		return err
	}
	ctx, cancel := context.WithTimeout(context.Background(), 30*time.Second)
	defer cancel()
	if err := e.WaitUntilReady(ctx); err != nil {
		return err
	}
	n.e = e
	return nil
}

func (n *c05node) waitTable(name string) (table.ActiveTable, error) {
	deadline := time.Now().Add(20 * time.Second)
	for {
		t, err := n.e.GetTable(name)
		if err == nil {
			ctx, cancel := context.WithTimeout(context.Background(), time.Second)
			_, err = t.LocalIndex(ctx, true)
			cancel()
			if err == nil {
				return t, nil
			}
		}
		if time.Now().After(deadline) {
			return table.ActiveTable{}, fmt.Errorf("table %s not ready on %s: %v", name, n.name, err)
		}
		time.Sleep(20 * time.Millisecond)
	}
}

// content of a table (linearizable full range, all pages)
func (n *c05node) content(name string, linearizable bool) (string, error) {
	t, err := n.e.GetTable(name)
	if err != nil {
		return "", err
	}
	ctx, cancel := context.WithTimeout(context.Background(), 5*time.Second)
	defer cancel()
	it, err := t.Iterator(ctx, &regattapb.RangeRequest{Table: []byte(name), Key: []byte{0}, RangeEnd: []byte{0}, Linearizable: linearizable})
	if err != nil {
		return "", err
	}
	var sb strings.Builder
	it(func(r *regattapb.ResponseOp_Range) bool {
		for _, kv := range r.Kvs {
			fmt.Fprintf(&sb, "%x=%x;", kv.Key, kv.Value)
		}
		return true
	})
	return sb.String(), nil
}

func (n *c05node) leaderIndex(name string) (uint64, error) {
	t, err := n.e.GetTable(name)
	if err != nil {
		return 0, err
	}
	ctx, cancel := context.WithTimeout(context.Background(), 2*time.Second)
	defer cancel()
	r, err := t.LeaderIndex(ctx, false)
	if err != nil {
		return 0, err
	}
	return r.Index, nil
}

func (n *c05node) localIndex(name string) (uint64, error) {
	t, err := n.e.GetTable(name)
	if err != nil {
		return 0, err
	}
	ctx, cancel := context.WithTimeout(context.Background(), 2*time.Second)
	defer cancel()
	r, err := t.LocalIndex(ctx, true)
	if err != nil {
		return 0, err
	}
	return r.Index, nil
}

// raft log entries of a table's shard in [first, last]
func (n *c05node) raftLog(shard, first, last uint64) ([]raftpb.Entry, error) {
	if last < first {
		return nil, nil
	}
	var out []raftpb.Entry
	for first <= last {
		rs, err := n.e.NodeHost.QueryRaftLog(shard, first, last+1, 64*1024*1024)
		if err != nil {
			return out, err
		}
		res := <-rs.ResultC()
		ents, _ := res.RaftLogs()
		rs.Release()
		if len(ents) == 0 {
			return out, fmt.Errorf("no entries for [%d,%d] (completed=%v)", first, last, res.Completed())
		}
		out = append(out, ents...)
		first = ents[len(ents)-1].Index + 1
	}
	return out, nil
}

// ---- the system: leader + replication server, follower + replication manager ----

type c05sys struct {
	leader, follower *c05node
	srv              *regattaserver.RegattaServer
	conn             *grpc.ClientConn
	mgr              *replication.Manager
	queue            *storage.IndexNotificationQueue
	repCfg           replication.Config
}

func (s *c05sys) startServer(maxMsg uint64) error {
	l, err := net.Listen("tcp", "127.0.0.1:0")
	if err != nil {
		return err
	}
	s.srv = regattaserver.NewServer(l, zap.NewNop().Sugar())
	regattapb.RegisterMetadataServer(s.srv, &regattaserver.MetadataServer{Tables: s.leader.e})
	regattapb.RegisterSnapshotServer(s.srv, &regattaserver.SnapshotServer{Tables: s.leader.e})
	regattapb.RegisterLogServer(s.srv, regattaserver.NewLogServer(s.leader.e, s.leader.e.LogReader, zap.NewNop(), maxMsg))
	go func() { _ = s.srv.Serve() }()
	s.conn, err = grpc.NewClient(l.Addr().String(), grpc.WithTransportCredentials(insecure.NewCredentials()))
	return err
}

func (s *c05sys) startManager() error {
	s.queue = storage.NewNotificationQueue()
	go s.queue.Run()
	s.mgr = replication.NewManager(s.follower.e, s.queue, s.conn, s.repCfg)
	return s.mgr.Start()
}

func (s *c05sys) close() {
	done := make(chan struct{})
	go func() { defer close(done); s.closeAll() }()
	select {
	case <-done:
	case <-time.After(20 * time.Second):
	}
}

func (s *c05sys) closeAll() {
	if s.mgr != nil {
		s.mgr.Close()
	}
	if s.conn != nil {
		_ = s.conn.Close()
	}
	if s.srv != nil {
		s.srv.Stop()
	}
	if s.follower != nil && s.follower.e != nil {
		_ = s.follower.e.Close()
	}
	if s.leader != nil && s.leader.e != nil {
		_ = s.leader.e.Close()
	}
}

// ---- leader writes ----

type c05write struct {
	index uint64 // leader log index (revision) of the command
	descr string
}

// issue a random command against the leader table through the public table API; returns its log index
func c05Write(ctx context.Context, t table.ActiveTable, name string, r *rand.Rand, keys []string) (uint64, string, error) {
	k := []byte(keys[r.Intn(len(keys))])
	v := []byte(fmt.Sprintf("v%d", r.Intn(1000)))
	if r.Intn(12) == 0 {
		v = bytes.Repeat([]byte{'x'}, 2000+r.Intn(3000))
	}
	switch c := r.Intn(10); {
	case c < 4:
		res, err := t.Put(ctx, &regattapb.PutRequest{Table: []byte(name), Key: k, Value: v})
		if err != nil {
			return 0, "", err
		}
		return res.Header.Revision, fmt.Sprintf("put %s", k), nil
	case c < 5:
		res, err := t.Delete(ctx, &regattapb.DeleteRangeRequest{Table: []byte(name), Key: k})
		if err != nil {
			return 0, "", err
		}
		return res.Header.Revision, fmt.Sprintf("delete %s", k), nil
	case c < 6:
		k2 := []byte(keys[r.Intn(len(keys))])
		if bytes.Compare(k, k2) > 0 {
			k, k2 = k2, k
		}
		res, err := t.Delete(ctx, &regattapb.DeleteRangeRequest{Table: []byte(name), Key: k, RangeEnd: k2})
		if err != nil {
			return 0, "", err
		}
		return res.Header.Revision, fmt.Sprintf("delete [%s,%s)", k, k2), nil
	default:
		// a non-idempotent transaction: if k is absent put k else move on to another key and delete k
		k2 := []byte(keys[r.Intn(len(keys))])
		res, err := t.Txn(ctx, &regattapb.TxnRequest{Table: []byte(name),
			Compare: []*regattapb.Compare{{Key: k, Result: regattapb.Compare_EQUAL, Target: regattapb.Compare_VALUE, TargetUnion: &regattapb.Compare_Value{Value: v}}},
			Success: []*regattapb.RequestOp{{Request: &regattapb.RequestOp_RequestDeleteRange{RequestDeleteRange: &regattapb.RequestOp_DeleteRange{Key: k}}}},
			Failure: []*regattapb.RequestOp{
				{Request: &regattapb.RequestOp_RequestPut{RequestPut: &regattapb.RequestOp_Put{Key: k, Value: v}}},
				{Request: &regattapb.RequestOp_RequestPut{RequestPut: &regattapb.RequestOp_Put{Key: k2, Value: append([]byte("m"), v...)}}},
			}})
		if err != nil {
			return 0, "", err
		}
		return res.Header.Revision, fmt.Sprintf("txn %s %s", k, k2), nil
	}
}

// the leader's history: every raft log entry of the table's shard, fetched before it can be compacted
type c05history struct {
	shard   uint64
	entries []raftpb.Entry // entries[i] has index i+1
}

func (h *c05history) fetchUpTo(n *c05node, idx uint64) error {
	last := uint64(len(h.entries))
	if idx <= last {
		return nil
	}
	ents, err := n.raftLog(h.shard, last+1, idx)
	if err != nil {
		return err
	}
	for _, e := range ents {
		if e.Index != uint64(len(h.entries))+1 {
			return fmt.Errorf("leader log not contiguous at %d (got %d)", len(h.entries)+1, e.Index)
		}
		h.entries = append(h.entries, e)
	}
	return nil
}

// canonical form of leader entry i as the LogServer ships it (entryToCommand)
func leaderShipped(e raftpb.Entry) ([]byte, error) {
	cmd := &regattapb.Command{}
	if e.Type != raftpb.EncodedEntry {
		cmd.Type = regattapb.Command_DUMMY
	} else if err := cmd.UnmarshalVT(e.Cmd[1:]); err != nil {
		return nil, err
	}
	idx := e.Index
	cmd.LeaderIndex = &idx
	return cmd.MarshalVT()
}

// reference content after exactly the leader entries 1..i, for the wanted indices i (and the last one)
func referenceStates(h *c05history, want map[uint64]bool) (map[uint64]string, error) {
	ref, _, err := newRealFSM(pvfs.NewMem(), 0)
	if err != nil {
		return nil, err
	}
	defer ref.close()
	out := map[uint64]string{}
	if want[0] {
		out[0], _ = contentHex(ref)
	}
	for i, e := range h.entries {
		if e.Type == raftpb.EncodedEntry {
			if _, err := ref.f.Update([]sm.Entry{{Index: e.Index, Cmd: e.Cmd[1:]}}); err != nil {
				return nil, err
			}
		}
		if want[e.Index] || i == len(h.entries)-1 {
			c, err := contentHex(ref)
			if err != nil {
				return nil, err
			}
			out[e.Index] = c
		}
	}
	return out, nil
}

func contentHex(r *realFSM) (string, error) {
	chunks, err := r.iterate(gRange{Key: []byte{0}, End: []byte{0}})
	if err != nil {
		return "", err
	}
	var sb strings.Builder
	for _, ch := range chunks {
		for _, kv := range ch.Kvs {
			fmt.Fprintf(&sb, "%x=%x;", kv.Key, kv.Value)
		}
	}
	return sb.String(), nil
}

type c05sample struct {
	lidx    uint64
	content string
	shard   uint64
}

type c05variant struct {
	name            string
	lateFollower    bool // the replication manager starts after the leader compacted its log: snapshot path
	restartWorker   bool
	restartFollower bool
	maxMsg          uint64
	writesBefore    int
	writesDuring    int
	snapshotEntries uint64
	bigBefore       int  // puts of 4000-byte values before the follower starts: responses larger than the proposal size
	readerAhead     bool // another follower has already read the leader's log (the leader's log cache is ahead), then the leader moved on
	stallApply      bool // the follower's apply path stalls once for longer than the worker's proposal deadline: the proposal times out at the worker and commits all the same
}

func runC05Scenario(rf *runFlags, rnd *rand.Rand, sum *Summary, cf *CasesFile, v c05variant, caseNo int) error {

	in := map[string]any{"variant": v.name, "seed": rf.Seed, "case": caseNo}
	sys := &c05sys{repCfg: replication.Config{ReconcileInterval: 150 * time.Millisecond,
		Workers: replication.WorkerConfig{PollInterval: 20 * time.Millisecond, LeaseInterval: 50 * time.Millisecond, LogRPCTimeout: 5 * time.Second, SnapshotRPCTimeout: 20 * time.Second, MaxRecoveryInFlight: 1}}}
	defer sys.close()
	var err error
	if sys.leader, err = newC05Node(fmt.Sprintf("leader%d", caseNo), 0, 0, 64, nil); err != nil {
		return err
	}
	queue := storage.NewNotificationQueue()
	go queue.Run()
	defer func() { _ = queue.Close() }()
	var stallArmed atomic.Bool
	listener := queue.Notify
	if v.stallApply {
		sys.repCfg.Workers.LogRPCTimeout = 700 * time.Millisecond
		listener = func(table string, rev uint64) {
			if table == "t" && rev > 0 && stallArmed.CompareAndSwap(true, false) {
				sum.hist("stalls").Inc("apply path stalled for 1.6 s (proposal deadline 0.7 s)")
				time.Sleep(1600 * time.Millisecond)
			}
			queue.Notify(table, rev)
		}
	}
	if sys.follower, err = newC05Node(fmt.Sprintf("follower%d", caseNo), 0, 0, 0, listener); err != nil {
		return err
	}
	sys.queue = queue
	if err := sys.startServer(v.maxMsg); err != nil {
		return err
	}
	const tname = "t"
	if _, err := sys.leader.e.CreateTable(tname); err != nil {
		return err
	}
	lt, err := sys.leader.waitTable(tname)
	if err != nil {
		return err
	}
	hist := &c05history{shard: lt.ClusterID}
	keys := []string{"a", "b", "c", "d", "e", "f", "g", "h", "i", "j"}
	var writes []c05write
	pace := time.Duration(0)
	write := func(n int) error {
		for i := 0; i < n; i++ {
			ctx, cancel := context.WithTimeout(context.Background(), 5*time.Second)
			idx, d, err := c05Write(ctx, lt, tname, rnd, keys)
			cancel()
			if err != nil {
				return fmt.Errorf("leader write: %w", err)
			}
			writes = append(writes, c05write{idx, d})
			sum.hist("leader_commands").Inc(strings.SplitN(d, " ", 2)[0])
			if err := hist.fetchUpTo(sys.leader, idx); err != nil {
				return fmt.Errorf("leader history: %w", err)
			}
			if pace > 0 {
				time.Sleep(pace)
			}
		}
		return nil
	}
	startMgr := func() error {
		m := replication.NewManager(sys.follower.e, queue, sys.conn, sys.repCfg)
		if err := m.Start(); err != nil {
			return err
		}
		sys.mgr = m
		return nil
	}
	if !v.lateFollower {
		if err := startMgr(); err != nil {
			return err
		}
	}
	if err := write(v.writesBefore); err != nil {
		return err
	}
	for i := 0; i < v.bigBefore; i++ {
		ctx, cancel := context.WithTimeout(context.Background(), 5*time.Second)
		res, err := lt.Put(ctx, &regattapb.PutRequest{Table: []byte(tname), Key: []byte(fmt.Sprintf("big%03d", i%40)), Value: bytes.Repeat([]byte{byte('a' + i%26)}, 4000)})
		cancel()
		if err != nil {
			return err
		}
		if err := hist.fetchUpTo(sys.leader, res.Header.Revision); err != nil {
			return err
		}
	}
	if v.lateFollower {
		if v.snapshotEntries > 0 { // compact the leader's log: the follower's first request is below the compaction point
			var err error
			for try := 0; try < 20; try++ {
				ctx, cancel := context.WithTimeout(context.Background(), 10*time.Second)
				_, err = sys.leader.e.NodeHost.SyncRequestSnapshot(ctx, lt.ClusterID, dragonboat.SnapshotOption{OverrideCompactionOverhead: true, CompactionOverhead: 2})
				cancel()
				if err == nil {
					break
				}
				time.Sleep(100 * time.Millisecond)
			}
			if err != nil {
				return fmt.Errorf("leader snapshot: %w", err)
			}
			time.Sleep(100 * time.Millisecond)
		}
		if v.readerAhead {
			// what a second follower cluster (or a worker that died before proposing) does: read the whole log once
			rctx, rcancel := context.WithTimeout(context.Background(), 20*time.Second)
			next := uint64(1)
			for round := 0; round < 200; round++ {
				st, err := regattapb.NewLogClient(sys.conn).Replicate(rctx, &regattapb.ReplicateRequest{Table: []byte(tname), LeaderIndex: next})
				if err != nil {
					rcancel()
					return fmt.Errorf("second reader: %w", err)
				}
				progressed := false
				for {
					m, err := st.Recv()
					if err != nil {
						break
					}
					if cr := m.GetCommandsResponse(); cr != nil && len(cr.Commands) > 0 {
						next = cr.Commands[len(cr.Commands)-1].LeaderIndex + 1
						progressed = true
					}
				}
				if !progressed {
					break
				}
			}
			rcancel()
			if err := write(12); err != nil {
				return err
			}
		}
		if err := startMgr(); err != nil {
			return err
		}
	}
	pace = 3 * time.Millisecond
	// sampler: (leader index, content, leader index) on the follower
	var samples []c05sample
	var smu sync.Mutex
	stopSampler := make(chan struct{})
	var swg sync.WaitGroup
	swg.Add(1)
	go func() {
		defer swg.Done()
		for {
			select {
			case <-stopSampler:
				return
			default:
			}
			time.Sleep(2 * time.Millisecond)
			fn := sys.follower
			if fn == nil || fn.e == nil {
				continue
			}
			func() {
				defer func() { _ = recover() }()
				t, err := fn.e.GetTable(tname)
				if err != nil {
					return
				}
				ctx, cancel := context.WithTimeout(context.Background(), time.Second)
				defer cancel()
				a, err := t.LeaderIndex(ctx, false)
				if err != nil {
					return
				}
				it, err := t.Iterator(ctx, &regattapb.RangeRequest{Table: []byte(tname), Key: []byte{0}, RangeEnd: []byte{0}})
				if err != nil {
					return
				}
				var sb strings.Builder
				it(func(r *regattapb.ResponseOp_Range) bool {
					for _, kv := range r.Kvs {
						fmt.Fprintf(&sb, "%x=%x;", kv.Key, kv.Value)
					}
					return true
				})
				b, err := t.LeaderIndex(ctx, false)
				if err != nil || a.Index != b.Index {
					return
				}
				smu.Lock()
				samples = append(samples, c05sample{a.Index, sb.String(), t.ClusterID})
				smu.Unlock()
			}()
		}
	}()
	// writes while the follower replicates, with restarts in the middle
	half := v.writesDuring / 2
	if err := write(half); err != nil {
		return err
	}
	if v.stallApply {
		// the next batch the follower applies stalls; the leader keeps writing meanwhile
		// (only once the follower replicates incrementally: its table exists and has recorded a leader index)
		if _, err := sys.follower.waitTable(tname); err != nil {
			return err
		}
		for dl := time.Now().Add(20 * time.Second); time.Now().Before(dl); time.Sleep(20 * time.Millisecond) {
			if li, err := sys.follower.leaderIndex(tname); err == nil && li > 0 {
				break
			}
		}
		stallArmed.Store(true)
		pace = 40 * time.Millisecond
		if err := write(45); err != nil {
			return err
		}
		pace = 0
	}
	if v.restartFollower {
		sys.mgr.Close()
		sys.mgr = nil
		old := sys.follower.e
		sys.follower.e = nil
		_ = old.Close()
		if err := write(5); err != nil {
			return err
		}
		if err := sys.follower.start(); err != nil {
			return fmt.Errorf("follower restart: %w", err)
		}
		if err := startMgr(); err != nil {
			return err
		}
	}
	if err := write(v.writesDuring - half); err != nil {
		return err
	}
	// let the follower catch up (incrementally or by snapshot), then a paced tail it has to follow incrementally
	waitCatchUp := func(d time.Duration) {
		la, _ := sys.leader.localIndex(tname)
		dl := time.Now().Add(d)
		for time.Now().Before(dl) {
			if f, err := sys.follower.leaderIndex(tname); err == nil && f >= la {
				return
			}
			time.Sleep(10 * time.Millisecond)
		}
	}
	waitCatchUp(20 * time.Second)
	pace = 6 * time.Millisecond
	if err := write(40); err != nil {
		return err
	}
	// quiescence: the follower must reach the leader's applied index
	leaderApplied, err := sys.leader.localIndex(tname)
	if err != nil {
		return err
	}
	if err := hist.fetchUpTo(sys.leader, leaderApplied); err != nil {
		return fmt.Errorf("leader history tail: %w", err)
	}
	deadline := time.Now().Add(40 * time.Second)
	var fl uint64
	for {
		fl, _ = sys.follower.leaderIndex(tname)
		if fl >= leaderApplied || time.Now().After(deadline) {
			break
		}
		time.Sleep(20 * time.Millisecond)
	}
	close(stopSampler)
	swg.Wait()
	sum.Evaluations++
	if v.writesBefore+v.writesDuring >= 20 {
		sum.DistinctNontrivial++
	}
	if fl < leaderApplied {
		sum.violate(caseNo, "the follower does not reach the leader's state although the leader stopped changing", in, fmt.Sprintf("follower leader index %d, leader applied %d after 40 s", fl, leaderApplied))
		return nil
	}
	if fl > leaderApplied {
		sum.violate(caseNo, "the follower records a leader index the leader never reached", in, fmt.Sprintf("follower %d, leader applied %d", fl, leaderApplied))
	}
	lc, err := sys.leader.content(tname, true)
	if err != nil {
		return err
	}
	fc, err := sys.follower.content(tname, true)
	if err != nil {
		return err
	}
	if lc != fc {
		sum.violate(caseNo, "after the leader stopped changing the follower's content differs from the leader's", in, fmt.Sprintf("leader %.300s follower %.300s", lc, fc))
	}
	// samples against the reference states
	wanted := map[uint64]bool{}
	for _, s := range samples {
		wanted[s.lidx] = true
	}
	refs, err := referenceStates(hist, wanted)
	if err != nil {
		return err
	}
	lastIdx := uint64(len(hist.entries))
	if refs[lastIdx] != lc {
		return fmt.Errorf("harness: reference replay of the leader log differs from the leader's content")
	}
	var prev uint64
	var prevShard uint64
	distinct := map[uint64]bool{}
	for _, s := range samples {
		distinct[s.lidx] = true
		if s.lidx < prev {
			sum.violate(caseNo, "the follower's recorded leader index moved backwards", in, fmt.Sprintf("%d after %d (shard %d after %d)", s.lidx, prev, s.shard, prevShard))
		}
		prev, prevShard = s.lidx, s.shard
		if s.lidx > lastIdx {
			sum.violate(caseNo, "the follower records a leader index the leader never reached", in, fmt.Sprint(s.lidx))
			continue
		}
		if want, ok := refs[s.lidx]; ok && s.content != want {
			sum.violate(caseNo, "the follower's content differs from the leader's content at the recorded leader index", in, fmt.Sprintf("leader index %d: follower %.300s leader-at-index %.300s", s.lidx, s.content, want))
			break
		}
	}
	sum.hist("samples_per_run").Inc(fmt.Sprintf("%d0+", len(samples)/10))
	sum.hist("distinct_indices_sampled").Inc(fmt.Sprintf("%d0+", len(distinct)/10))
	// the follower's own log: which proposals made it what it is
	ft, err := sys.follower.e.GetTable(tname)
	if err != nil {
		return err
	}
	fApplied, err := sys.follower.localIndex(tname)
	if err != nil {
		return err
	}
	fents, err := sys.follower.raftLog(ft.ClusterID, 1, fApplied)
	if err != nil {
		return fmt.Errorf("follower log: %w", err)
	}
	dict := map[string]int{}
	id := func(b []byte) int {
		if v, ok := dict[string(b)]; ok {
			return v
		}
		dict[string(b)] = len(dict) + 1
		return len(dict)
	}
	leaderIDs := make([]string, len(hist.entries))
	for i, e := range hist.entries {
		b, err := leaderShipped(e)
		if err != nil {
			return err
		}
		leaderIDs[i] = fmt.Sprint(id(b))
	}
	var props, flat, flatDescr []string
	type seqTag struct {
		li *uint64
		n  int
	}
	var seqTags []seqTag
	kinds := sum.hist("follower_proposals")
	for _, e := range fents {
		if e.Type != raftpb.EncodedEntry {
			continue
		}
		cmd := &regattapb.Command{}
		if err := cmd.UnmarshalVT(e.Cmd[1:]); err != nil {
			return err
		}
		tag := "None"
		if cmd.LeaderIndex != nil {
			tag = fmt.Sprintf("(Some %d)", *cmd.LeaderIndex)
		}
		switch cmd.Type {
		case regattapb.Command_SEQUENCE:
			ids := make([]string, len(cmd.Sequence))
			for i, c := range cmd.Sequence {
				b, err := c.MarshalVT()
				if err != nil {
					return err
				}
				ids[i] = fmt.Sprint(id(b))
			}
			props = append(props, fmt.Sprintf("pseq %s %s", tag, cList(ids)))
			kinds.Inc("sequence")
			seqTags = append(seqTags, seqTag{cmd.LeaderIndex, len(ids)})
			flat = append(flat, ids...)
			flatDescr = append(flatDescr, fmt.Sprintf("%s:%d commands", tag, len(ids)))
		case regattapb.Command_PUT_BATCH:
			props = append(props, fmt.Sprintf("prestore %s", tag))
			kinds.Inc("restore batch")
			flat, flatDescr = nil, nil // a recovery starts the table afresh
		default:
			props = append(props, fmt.Sprintf("pother %s", tag))
			kinds.Inc("other " + cmd.Type.String())
		}
	}
	// every proposal is tagged with the leader index of ITS last command (the index the follower records - and
	// reports to waiting follower-API writers - once the proposal is applied)
	if fl == leaderApplied && len(flat) > len(leaderIDs) {
		sum.violate(caseNo, "the commands the follower applied are not the leader's commands, each once and in leader order", in,
			fmt.Sprintf("the follower's proposals (leader index tag:size) %v carry %d commands, the leader's log has only %d (leader commands applied more than once)", flatDescr, len(flat), len(leaderIDs)))
	}
	// a proposal that repeats the leader index tag of the one before it carries commands that were already proposed
	for k := 1; k < len(flatDescr); k++ {
		if flatDescr[k] == flatDescr[k-1] && !strings.HasPrefix(flatDescr[k], "None") {
			sum.violate(caseNo, "the commands the follower applied are not the leader's commands, each once and in leader order", in,
				fmt.Sprintf("proposals %d and %d of %v are the same batch (same leader index tag, same size): its commands take effect twice", k-1, k, flatDescr))
			break
		}
	}
	if fl == leaderApplied && len(flat) <= len(leaderIDs) {
		pos := uint64(len(leaderIDs) - len(flat)) // leader index of the command before the first one proposed since the last recovery
		for k, st := range seqTags[len(seqTags)-len(flatDescr):] {
			pos += uint64(st.n)
			if st.li == nil || *st.li != pos {
				got := "none"
				if st.li != nil {
					got = fmt.Sprint(*st.li)
				}
				sum.violate(caseNo, "a follower proposal is tagged with a leader index that is not the index of its last command", in, fmt.Sprintf("proposal %d of %v: tag %s, its last command is the leader's entry %d", k, flatDescr, got, pos))
				break
			}
		}
	}
	// exactly once and in leader order: what the follower proposed to itself since its last recovery is a gap-free run
	// of the leader's commands ending at the leader's last one
	if fl == leaderApplied && len(flat) <= len(leaderIDs) {
		tail := leaderIDs[len(leaderIDs)-len(flat):]
		for i := range flat {
			if flat[i] != tail[i] {
				sum.violate(caseNo, "the commands the follower applied are not the leader's commands, each once and in leader order", in,
					fmt.Sprintf("the follower's proposals (leader index tag:size) %v carry %d commands; as a run ending at the leader's last command, position %d holds another command (leader commands skipped or repeated)", flatDescr, len(flat), i))
				break
			}
		}
	}
	cf.Add(fmt.Sprintf("{| r_leader := %s; r_props := %s; r_final := %d |}", cList(leaderIDs), cList(props), fl),
		fmt.Sprintf("variant %s: %d leader entries, %d follower proposals", v.name, len(leaderIDs), len(props)))
	if len(sum.Samples) < 3 {
		sum.Samples = append(sum.Samples, map[string]any{"variant": v.name, "leader_entries": len(hist.entries), "follower_proposals": len(props), "samples": len(samples), "distinct_leader_indices_sampled": len(distinct)})
	}
	return nil
}

// the set of replicated tables: created on the leader -> appear, deleted -> disappear; a table deleted and created
// again under the same name is a new table
func runC05Tables(rf *runFlags, rnd *rand.Rand, sum *Summary, rc *CasesFile, caseNo int, recreate bool) error {
	in := map[string]any{"variant": map[bool]string{false: "tables created and deleted on the leader", true: "table deleted and recreated under the same name"}[recreate], "seed": rf.Seed, "case": caseNo}
	sys := &c05sys{repCfg: replication.Config{ReconcileInterval: 150 * time.Millisecond,
		Workers: replication.WorkerConfig{PollInterval: 20 * time.Millisecond, LeaseInterval: 50 * time.Millisecond, LogRPCTimeout: 5 * time.Second, SnapshotRPCTimeout: 20 * time.Second, MaxRecoveryInFlight: 1}}}
	defer sys.close()
	var err error
	if sys.leader, err = newC05Node(fmt.Sprintf("leaderT%d", caseNo), 0, 0, 64, nil); err != nil {
		return err
	}
	queue := storage.NewNotificationQueue()
	go queue.Run()
	defer func() { _ = queue.Close() }()
	if sys.follower, err = newC05Node(fmt.Sprintf("followerT%d", caseNo), 0, 0, 0, queue.Notify); err != nil {
		return err
	}
	if err := sys.startServer(0); err != nil {
		return err
	}
	keys := []string{"a", "b", "c", "d", "e", "f"}
	mk := func(name string, n int) error {
		if _, err := sys.leader.e.CreateTable(name); err != nil {
			return err
		}
		t, err := sys.leader.waitTable(name)
		if err != nil {
			return err
		}
		for i := 0; i < n; i++ {
			ctx, cancel := context.WithTimeout(context.Background(), 5*time.Second)
			_, _, err := c05Write(ctx, t, name, rnd, keys)
			cancel()
			if err != nil {
				return err
			}
		}
		return nil
	}
	names := func(n *c05node) string {
		ts, err := n.e.GetTables()
		if err != nil {
			return "error: " + err.Error()
		}
		var l []string
		for _, t := range ts {
			l = append(l, t.Name)
		}
		sort.Strings(l)
		return strings.Join(l, ",")
	}
	converged := func(d time.Duration) (bool, string) {
		dl := time.Now().Add(d)
		why := ""
		for time.Now().Before(dl) {
			why = ""
			ln, fn := names(sys.leader), names(sys.follower)
			if ln != fn {
				why = fmt.Sprintf("tables: leader {%s} follower {%s}", ln, fn)
			} else {
				for _, name := range strings.Split(ln, ",") {
					if name == "" {
						continue
					}
					lc, err1 := sys.leader.content(name, true)
					fc, err2 := sys.follower.content(name, true)
					if err1 != nil || err2 != nil || lc != fc {
						why = fmt.Sprintf("table %s: leader %.120s (%v) follower %.120s (%v)", name, lc, err1, fc, err2)
						break
					}
				}
			}
			if why == "" {
				return true, ""
			}
			time.Sleep(50 * time.Millisecond)
		}
		return false, why
	}
	// the table set as the model sees it: names as numbers
	nameID := map[string]int{"t": 1, "a": 2, "b": 3}
	ids := func(csv string) string {
		var out []string
		for _, n := range strings.Split(csv, ",") {
			if n != "" {
				out = append(out, fmt.Sprint(nameID[n]))
			}
		}
		return cList(out)
	}
	settled := func(before string) {
		var obs []string
		var sorted []int
		for _, n := range strings.Split(names(sys.follower), ",") {
			if n != "" {
				sorted = append(sorted, nameID[n])
			}
		}
		sort.Ints(sorted)
		for _, x := range sorted {
			obs = append(obs, oN(int64(x)))
		}
		rc.Add(fmt.Sprintf("{| rc_leader := %s; rc_follower := %s; rc_impl := %s |}", ids(names(sys.leader)), ids(before), oLs(obs)),
			fmt.Sprintf("leader {%s} follower before {%s}", names(sys.leader), before))
	}
	if err := mk("t", 15); err != nil {
		return err
	}
	if err := mk("a", 10); err != nil {
		return err
	}
	m := replication.NewManager(sys.follower.e, queue, sys.conn, sys.repCfg)
	if err := m.Start(); err != nil {
		return err
	}
	sys.mgr = m
	sum.Evaluations++
	sum.DistinctNontrivial++
	if ok, why := converged(30 * time.Second); !ok {
		sum.violate(caseNo, "the follower's tables do not converge to the leader's", in, "initial tables: "+why)
		return nil
	}
	settled("")
	if !recreate {
		if err := sys.leader.e.DeleteTable("a"); err != nil {
			return err
		}
		if err := mk("b", 12); err != nil {
			return err
		}
		before := names(sys.follower)
		if ok, why := converged(30 * time.Second); !ok {
			sum.violate(caseNo, "the follower's tables do not converge to the leader's", in, "after deleting a and creating b: "+why)
			return nil
		}
		settled(before)
		before = names(sys.follower)
		// ... down to no table at all
		for _, n := range []string{"b", "t"} {
			if err := sys.leader.e.DeleteTable(n); err != nil {
				return err
			}
		}
		if ok, why := converged(30 * time.Second); !ok {
			sum.violate(caseNo, "the follower's tables do not converge to the leader's", in, "after deleting every table on the leader: "+why)
			return nil
		}
		settled(before)
		return nil
	}
	// delete and create again under the same name, with different content, within one reconcile interval
	if err := sys.leader.e.DeleteTable("t"); err != nil {
		return err
	}
	if err := mk("t", 8); err != nil {
		return err
	}
	if ok, why := converged(20 * time.Second); !ok {
		sum.violate(caseNo, "the follower does not follow a table that was deleted and created again under the same name", in, why)
	}
	return nil
}

type snapFile interface {
	io.Reader
	io.Seeker
	Sync() error
	Close() error
	Path() string
}

// failingReader hands out n records and then fails (an interrupted snapshot installation)
type failingReader struct {
	r io.Reader
	n int
}

func (f *failingReader) Read(p []byte) (int, error) {
	if f.n <= 0 {
		return 0, fmt.Errorf("injected: snapshot installation interrupted")
	}
	f.n--
	return f.r.Read(p)
}

// reference content after exactly the leader entries 1..idx
func referenceAt(h *c05history, idx uint64) (string, error) {
	ref, _, err := newRealFSM(pvfs.NewMem(), 0)
	if err != nil {
		return "", err
	}
	defer ref.close()
	for _, e := range h.entries {
		if e.Index > idx {
			break
		}
		if e.Type == raftpb.EncodedEntry {
			if _, err := ref.f.Update([]sm.Entry{{Index: e.Index, Cmd: e.Cmd[1:]}}); err != nil {
				return "", err
			}
		}
	}
	return contentHex(ref)
}

// snapshot recovery as the worker does it (download through the real snapshot service, Engine.Restore), with the
// leader writing at full speed while the snapshot is produced, and with an installation that is interrupted half
// way and retried after the leader moved on (deleted keys that the first attempt had already loaded)
func runC05Restore(rf *runFlags, rnd *rand.Rand, sum *Summary, caseNo int) error {
	sys := &c05sys{}
	defer sys.close()
	var err error
	if sys.leader, err = newC05Node(fmt.Sprintf("leaderR%d", caseNo), 0, 0, 64, nil); err != nil {
		return err
	}
	if sys.follower, err = newC05Node(fmt.Sprintf("followerR%d", caseNo), 0, 0, 0, nil); err != nil {
		return err
	}
	if err := sys.startServer(0); err != nil {
		return err
	}
	const tname = "t"
	if _, err := sys.leader.e.CreateTable(tname); err != nil {
		return err
	}
	lt, err := sys.leader.waitTable(tname)
	if err != nil {
		return err
	}
	hist := &c05history{shard: lt.ClusterID}
	put := func(k string, v []byte) error {
		ctx, cancel := context.WithTimeout(context.Background(), 5*time.Second)
		defer cancel()
		_, err := lt.Put(ctx, &regattapb.PutRequest{Table: []byte(tname), Key: []byte(k), Value: v})
		return err
	}
	nbulk := 320
	for i := 0; i < nbulk; i++ {
		if err := put(fmt.Sprintf("bulk-%04d", i), bytes.Repeat([]byte{byte('a' + i%26)}, 4000)); err != nil {
			return err
		}
	}
	// the last record of the stream is large enough to cross the loader's flush threshold on its own: the final
	// proposal then carries nothing but the leader index
	if err := put("zzz-last", bytes.Repeat([]byte{'z'}, 600*1024)); err != nil {
		return err
	}
	download := func() (snapFile, error) {
		ctx, cancel := context.WithTimeout(context.Background(), 60*time.Second)
		defer cancel()
		stream, err := regattapb.NewSnapshotClient(sys.conn).Stream(ctx, &regattapb.SnapshotRequest{Table: []byte(tname)})
		if err != nil {
			return nil, err
		}
		sf, err := snapshot.NewTemp()
		if err != nil {
			return nil, err
		}
		if _, err := io.Copy(sf.File, &snapshot.Reader{Stream: stream}); err != nil {
			return nil, err
		}
		if err := sf.Sync(); err != nil {
			return nil, err
		}
		_, err = sf.Seek(0, io.SeekStart)
		return sf, err
	}
	checkFollower := func(what string, in map[string]any) error {
		if _, err := sys.follower.waitTable(tname); err != nil {
			return err
		}
		fl, err := sys.follower.leaderIndex(tname)
		if err != nil {
			return err
		}
		la, err := sys.leader.localIndex(tname)
		if err != nil {
			return err
		}
		if err := hist.fetchUpTo(sys.leader, la); err != nil {
			return fmt.Errorf("leader history: %w", err)
		}
		fc, err := sys.follower.content(tname, true)
		if err != nil {
			return err
		}
		if fl > la {
			sum.violate(caseNo, "the follower records a leader index the leader never reached", in, fmt.Sprintf("follower %d leader %d", fl, la))
			return nil
		}
		want, err := referenceAt(hist, fl)
		if err != nil {
			return err
		}
		if fc != want {
			sum.violate(caseNo, "the follower's content differs from the leader's content at the recorded leader index", in,
				fmt.Sprintf("%s: recorded leader index %d (leader applied %d): follower has %d bytes of content, the leader at that index %d", what, fl, la, len(fc), len(want)))
		}
		return nil
	}
	// (A) the leader writes while the snapshot is produced
	inA := map[string]any{"variant": "snapshot recovery while the leader writes", "seed": rf.Seed, "case": caseNo}
	stop := make(chan struct{})
	var wg sync.WaitGroup
	var werr error
	wg.Add(1)
	go func() {
		defer wg.Done()
		for i := 0; ; i++ {
			select {
			case <-stop:
				return
			default:
			}
			if err := put(fmt.Sprintf("w-%06d", i), []byte("x")); err != nil {
				werr = err
				return
			}
		}
	}()
	time.Sleep(20 * time.Millisecond)
	sfA, err := download()
	close(stop)
	wg.Wait()
	if err != nil {
		return err
	}
	if werr != nil {
		return werr
	}
	sum.Evaluations++
	sum.DistinctNontrivial++
	if err := sys.follower.e.Restore(tname, sfA); err != nil {
		return fmt.Errorf("restore: %w", err)
	}
	_ = sfA.Close()
	_ = os.Remove(sfA.Path())
	if err := checkFollower("after a recovery from a snapshot produced while the leader was writing", inA); err != nil {
		return err
	}
	// (B) an installation interrupted half way, the leader moves on, the installation is retried
	inB := map[string]any{"variant": "snapshot installation interrupted and retried", "seed": rf.Seed, "case": caseNo}
	sf1, err := download()
	if err != nil {
		return err
	}
	rerr := sys.follower.e.Restore(tname, &failingReader{r: sf1, n: nbulk / 2})
	_ = sf1.Close()
	_ = os.Remove(sf1.Path())
	sum.Evaluations++
	if rerr == nil {
		return fmt.Errorf("harness: the interrupted restore did not fail")
	}
	for i := 0; i < 12; i++ { // keys the interrupted attempt had already loaded
		ctx, cancel := context.WithTimeout(context.Background(), 5*time.Second)
		_, err := lt.Delete(ctx, &regattapb.DeleteRangeRequest{Table: []byte(tname), Key: []byte(fmt.Sprintf("bulk-%04d", i))})
		cancel()
		if err != nil {
			return err
		}
	}
	sf2, err := download()
	if err != nil {
		return err
	}
	if err := sys.follower.e.Restore(tname, sf2); err != nil {
		return fmt.Errorf("retried restore: %w", err)
	}
	_ = sf2.Close()
	_ = os.Remove(sf2.Path())
	return checkFollower("after a retried snapshot installation", inB)
}

func runC05(args []string) error {
	only := ""
	rf, err := parseFlags("c05", args, func(fs *flag.FlagSet) { fs.StringVar(&only, "variant", "", "run one variant only") })
	if err != nil {
		return err
	}
	sum := &Summary{Engine: "c05", Seed: rf.Seed,
		Rule: "full system in one process: a real single-node leader storage.Engine with the real replication gRPC services (metadata, log with the cached log reader, snapshot) and a real single-node follower storage.Engine with the real replication.Manager/worker. The leader table receives random puts, deletes, range deletes and non-idempotent transactions through the table API while the follower replicates; variants: follower from the start, follower started after the leader compacted its log (snapshot recovery), small message-size limit (also with a second reader that filled the leader's log cache ahead of the follower), follower engine restart, large backlog. A sampler reads (leader index, full content, leader index) on the follower every 2 ms. Go oracle: convergence within 40 s after the leader stops, final content equal, every sample equals the leader's content at exactly that leader log index (reference replay of the leader's raft log through a real state machine), sampled index never decreases. Coq: the follower's own raft log must be explained by the model - its SEQUENCE proposals carry exactly the leader's entries, in order, each once, tagged with the index of their last entry, starting from the index a restore recorded. distinct = system runs; non-trivial = 20 or more leader commands"}
	quietDragonboat()
	go func() {
		time.Sleep(time.Duration(10+5*rf.Scale) * time.Minute)
		buf := make([]byte, 1<<20)
		n := runtime.Stack(buf, true)
		fmt.Fprintf(os.Stderr, "harness c05: watchdog: still running, giving up\n%s\n", buf[:n])
		os.Exit(3)
	}()
	rnd := rf.rng()
	cf := &CasesFile{Requires: []string{"Model.Bytes", "Model.Obs", "Model.Replication", "Run.C05Run"}, CaseType: "c05case", Check: "c05_check", Show: "c05_model"}
	rc := &CasesFile{Requires: []string{"Model.Bytes", "Model.Obs", "Model.Reconcile", "Run.C05Run"}, CaseType: "rccase", Check: "rc_check", Show: "rc_model"}
	variants := []c05variant{
		{name: "follower from the start", writesBefore: 10, writesDuring: 60, maxMsg: 0},
		{name: "late follower, leader log compacted (snapshot recovery)", lateFollower: true, writesBefore: 60, writesDuring: 30, snapshotEntries: 1, maxMsg: 0},
		{name: "small message size limit", writesBefore: 40, writesDuring: 30, maxMsg: 1500, lateFollower: true},
		{name: "follower engine restart", writesBefore: 10, writesDuring: 50, restartFollower: true},
		{name: "small message size limit, another reader ahead of the follower (leader log cache)", writesBefore: 40, writesDuring: 20, maxMsg: 1500, lateFollower: true, readerAhead: true},
		{name: "large backlog (responses cut into several proposals)", lateFollower: true, writesBefore: 5, bigBefore: 200, writesDuring: 10},
		{name: "stalled apply (a proposal outlives the worker's deadline and commits all the same)", writesBefore: 10, writesDuring: 20, stallApply: true},
	}
	rounds := 1
	if rf.Tier == "thorough" {
		rounds = 3 * rf.Scale
	}
	c := 0
	for r := 0; r < rounds; r++ {
		for _, v := range variants {
			if only != "" && !strings.Contains(v.name, only) {
				continue
			}
			sum.hist("variants").Inc(v.name)
			if err := runC05Scenario(rf, rnd, sum, cf, v, c); err != nil {
				return fmt.Errorf("variant %q: %w", v.name, err)
			}
			c++
		}
	}
	if only == "" || strings.Contains("restore", only) {
		sum.hist("variants").Inc("snapshot recovery under leader writes; interrupted and retried installation")
		if err := runC05Restore(rf, rnd, sum, c); err != nil {
			return fmt.Errorf("restore variant: %w", err)
		}
		c++
	}
	for _, recreate := range []bool{false, true} {
		if only != "" && !strings.Contains("tables", only) {
			continue
		}
		sum.hist("variants").Inc(map[bool]string{false: "tables created and deleted", true: "table recreated under the same name"}[recreate])
		if err := runC05Tables(rf, rnd, sum, rc, c, recreate); err != nil {
			return fmt.Errorf("tables variant: %w", err)
		}
		c++
	}
	if len(sum.Samples) == 0 {
		sum.Samples = append(sum.Samples, "no runs")
	}
	names, err := cf.Write(rf.Out, "c05", 50)
	if err != nil {
		return err
	}
	sum.CasesFiles = names
	if len(rc.Descr) > 0 {
		rnames, err := rc.Write(rf.Out, "c05_tables", 50)
		if err != nil {
			return err
		}
		sum.CasesFiles = append(sum.CasesFiles, rnames...)
	}
	_ = atomic.Int64{}
	_ = sort.Ints
	return sum.write(rf.Out, "c05")
}
