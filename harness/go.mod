module verifharness

go 1.22

require (
	github.com/cockroachdb/pebble v0.0.0-20221207173255-0f086d933dac
	github.com/jamf/regatta v0.0.0
	github.com/lni/dragonboat/v4 v4.0.0-20231222133740-1d6e2d76cd57
	github.com/lni/vfs v0.2.1-0.20220616104132-8852fd867376
	go.uber.org/zap v1.27.0
	google.golang.org/grpc v1.63.2
	google.golang.org/protobuf v1.34.1
)

require (
	github.com/DataDog/zstd v1.5.5 // indirect
	github.com/HdrHistogram/hdrhistogram-go v1.1.2 // indirect
	github.com/VictoriaMetrics/metrics v1.33.1 // indirect
	github.com/armon/go-metrics v0.4.1 // indirect
	github.com/beorn7/perks v1.0.1 // indirect
	github.com/cenkalti/backoff/v4 v4.3.0 // indirect
	github.com/cespare/xxhash/v2 v2.2.0 // indirect
	github.com/cockroachdb/errors v1.11.1 // indirect
	github.com/cockroachdb/logtags v0.0.0-20230118201751-21c54148d20b // indirect
	github.com/cockroachdb/redact v1.1.5 // indirect
	github.com/getsentry/sentry-go v0.26.0 // indirect
	github.com/gogo/protobuf v1.3.2 // indirect
	github.com/golang/snappy v0.0.4 // indirect
	github.com/google/btree v1.1.2 // indirect
	github.com/google/uuid v1.6.0 // indirect
	github.com/hashicorp/errwrap v1.1.0 // indirect
	github.com/hashicorp/go-immutable-radix v1.3.1 // indirect
	github.com/hashicorp/go-msgpack/v2 v2.1.1 // indirect
	github.com/hashicorp/go-multierror v1.1.1 // indirect
	github.com/hashicorp/go-sockaddr v1.0.5 // indirect
	github.com/hashicorp/golang-lru v1.0.2 // indirect
	github.com/hashicorp/memberlist v0.5.1 // indirect
	github.com/klauspost/compress v1.17.8 // indirect
	github.com/kr/pretty v0.3.1 // indirect
	github.com/kr/text v0.2.0 // indirect
	github.com/lni/goutils v1.4.0 // indirect
	github.com/miekg/dns v1.1.56 // indirect
	github.com/oxtoacart/bpool v0.0.0-20190530202638-03653db5a59c // indirect
	github.com/pierrec/lz4/v4 v4.1.18 // indirect
	github.com/pkg/errors v0.9.1 // indirect
	github.com/planetscale/vtprotobuf v0.6.0 // indirect
	github.com/prometheus/client_golang v1.19.1 // indirect
	github.com/prometheus/client_model v0.6.0 // indirect
	github.com/prometheus/common v0.53.0 // indirect
	github.com/prometheus/procfs v0.12.0 // indirect
	github.com/rogpeppe/go-internal v1.11.0 // indirect
	github.com/sean-/seed v0.0.0-20170313163322-e2103e2c3529 // indirect
	github.com/valyala/fastrand v1.1.0 // indirect
	github.com/valyala/histogram v1.2.0 // indirect
	go.uber.org/multierr v1.11.0 // indirect
	golang.org/x/exp v0.0.0-20231226003508-02704c960a9b // indirect
	golang.org/x/net v0.24.0 // indirect
	golang.org/x/sync v0.7.0 // indirect
	golang.org/x/sys v0.19.0 // indirect
	golang.org/x/text v0.14.0 // indirect
	golang.org/x/time v0.5.0 // indirect
	google.golang.org/genproto/googleapis/rpc v0.0.0-20240415180920-8c6c420018be // indirect
)

replace github.com/jamf/regatta => /repo
