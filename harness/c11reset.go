package main

import (
	"context"
	"fmt"
	"time"

	"github.com/jamf/regatta/regattapb"
	"github.com/jamf/regatta/storage"
)

// runC11Reset: a follower engine wired as cmd/follower.go wires it (the tables' applied-index reports feed the
// notification queue), whose table is reset by the operator (ActiveTable.Reset: the recorded leader index goes back
// to 0) and replicated again from the start.  A follower-API write that waits for revision 3 after the reset must be
// answered once index 3 has been applied again - not earlier (read-your-writes), and not never (no wedge).
func runC11Reset(sum *Summary) error {
	q := storage.NewNotificationQueue()
	go q.Run()
	defer q.Close()
	node, err := newC05Node("c11reset", 0, 0, 0, q.Notify)
	if err != nil {
		return err
	}
	defer func() {
		done := make(chan struct{})
		go func() { _ = node.e.Close(); close(done) }()
		select {
		case <-done:
		case <-time.After(20 * time.Second):
		}
	}()
	if _, err := node.e.CreateTable("t"); err != nil {
		return err
	}
	at, err := node.waitTable("t")
	if err != nil {
		return err
	}
	replicate := func(li uint64) error {
		cmd := &regattapb.Command{Table: []byte("t"), Type: regattapb.Command_PUT, Kv: &regattapb.KeyValue{Key: []byte(fmt.Sprintf("k%d", li)), Value: []byte(fmt.Sprintf("v%d", li))}, LeaderIndex: &li}
		bts, err := cmd.MarshalVT()
		if err != nil {
			return err
		}
		ctx, cancel := context.WithTimeout(context.Background(), 10*time.Second)
		defer cancel()
		_, err = node.e.SyncPropose(ctx, node.e.GetNoOPSession(at.ClusterID), bts)
		return err
	}
	for li := uint64(1); li <= 10; li++ {
		if err := replicate(li); err != nil {
			return err
		}
	}
	in := map[string]any{"scenario": "leader indices 1..10 replicated; operator reset of the table (leader index 0); a caller waits for revision 3; indices 1..3 replicated again"}
	ctx, cancel := context.WithTimeout(context.Background(), 10*time.Second)
	if err := at.Reset(ctx); err != nil {
		cancel()
		return err
	}
	cancel()
	// let the report of the reset reach the queue
	time.Sleep(200 * time.Millisecond)
	wctx, wcancel := context.WithTimeout(context.Background(), 25*time.Second)
	defer wcancel()
	w := q.Add(wctx, "t", 3)
	sum.Evaluations++
	sum.DistinctNontrivial++
	sum.hist("forwarded_writes").Inc("waiter across an operator reset")
	select {
	case werr := <-w:
		li, _ := node.leaderIndex("t")
		if werr == nil {
			sum.violate(9700, "a waiter is released before the revision it waits for is applied on the node", in, fmt.Sprintf("released while the table's leader index is %d", li))
		}
		return nil
	case <-time.After(300 * time.Millisecond):
	}
	for li := uint64(1); li <= 3; li++ {
		if err := replicate(li); err != nil {
			return err
		}
	}
	select {
	case werr := <-w:
		if werr != nil {
			li, _ := node.leaderIndex("t")
			sum.violate(9701, "a caller waiting for a revision that has been applied is not answered (answered with an error after its deadline)", in, fmt.Sprintf("%v; the table's leader index is %d", werr, li))
		}
	case <-time.After(30 * time.Second):
		sum.violate(9701, "a caller waiting for a revision that has been applied is never answered", in, nil)
	}
	return nil
}
