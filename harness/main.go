// Command verifharness drives the implementation side of the correspondence checks.
// It is built from /repo's working tree (go.mod: replace github.com/jamf/regatta => /repo) with -tags verif.
package main

import (
	"fmt"
	"os"
	"sort"
)

type subcmd func(args []string) error

var subcmds = map[string]subcmd{}

func register(name string, f subcmd) { subcmds[name] = f }

func main() {
	if len(os.Args) < 2 {
		usage()
	}
	f, ok := subcmds[os.Args[1]]
	if !ok {
		usage()
	}
	if err := f(os.Args[2:]); err != nil {
		fmt.Fprintln(os.Stderr, "harness error:", err)
		os.Exit(2)
	}
}

func usage() {
	names := make([]string, 0, len(subcmds))
	for n := range subcmds {
		names = append(names, n)
	}
	sort.Strings(names)
	fmt.Fprintln(os.Stderr, "usage: harness <subcommand> [flags]; subcommands:", names)
	os.Exit(2)
}
