package main

import (
	"context"
	"crypto/ecdsa"
	"crypto/elliptic"
	"crypto/rand"
	"crypto/tls"
	"crypto/x509"
	"crypto/x509/pkix"
	"encoding/pem"
	"fmt"
	"io"
	"math/big"
	"net"
	"os"
	"path/filepath"
	"strings"
	"sync/atomic"
	"time"

	"github.com/jamf/regatta/cmd"
	"github.com/jamf/regatta/regattapb"
	"github.com/jamf/regatta/regattaserver"
	"github.com/jamf/regatta/security"
	"github.com/jamf/regatta/storage/table"
	"github.com/spf13/viper"
	"go.uber.org/zap"
	"google.golang.org/grpc"
	"google.golang.org/grpc/codes"
	"google.golang.org/grpc/credentials"
	"google.golang.org/grpc/credentials/insecure"
	"google.golang.org/grpc/metadata"
	"google.golang.org/grpc/status"
)

func init() { register("c17", runC17) }

// countingTables records whether any handler behind the auth interceptor was reached.
type countingTables struct {
	regattaserver.TableService
	calls atomic.Int64
}

func (c *countingTables) CreateTable(name string) (table.Table, error) {
	c.calls.Add(1)
	return table.Table{Name: name, ClusterID: 10001}, nil
}
func (c *countingTables) DeleteTable(string) error { c.calls.Add(1); return nil }
func (c *countingTables) GetTables() ([]table.Table, error) {
	c.calls.Add(1)
	return nil, nil
}
func (c *countingTables) GetTable(string) (table.ActiveTable, error) {
	c.calls.Add(1)
	return table.ActiveTable{}, fmt.Errorf("no such table")
}
func (c *countingTables) Restore(string, io.Reader) error { c.calls.Add(1); return nil }

type kvStub struct{ regattaserver.KVService }

func (kvStub) Range(context.Context, *regattapb.RangeRequest) (*regattapb.RangeResponse, error) {
	return &regattapb.RangeResponse{}, nil
}

// callMethod invokes one method of a protected service with the given authorization header and reports the status code.
func callMethod(conn *grpc.ClientConn, full string, streaming bool, header *string) codes.Code {
	ctx, cancel := context.WithTimeout(context.Background(), 5*time.Second)
	defer cancel()
	if header != nil {
		ctx = metadata.AppendToOutgoingContext(ctx, "authorization", *header)
	}
	if !streaming {
		var req, resp interface{}
		switch full {
		case "/regatta.v1.Tables/Create":
			req, resp = &regattapb.CreateTableRequest{Name: "x"}, &regattapb.CreateTableResponse{}
		case "/regatta.v1.Tables/Delete":
			req, resp = &regattapb.DeleteTableRequest{Name: "x"}, &regattapb.DeleteTableResponse{}
		case "/regatta.v1.Tables/List":
			req, resp = &regattapb.ListTablesRequest{}, &regattapb.ListTablesResponse{}
		case "/maintenance.v1.Maintenance/Reset":
			req, resp = &regattapb.ResetRequest{Table: []byte("x")}, &regattapb.ResetResponse{}
		case "/regatta.v1.KV/Range":
			req, resp = &regattapb.RangeRequest{Table: []byte("t"), Key: []byte("k")}, &regattapb.RangeResponse{}
		default:
			return codes.Unknown
		}
		return status.Code(conn.Invoke(ctx, full, req, resp))
	}
	desc := &grpc.StreamDesc{ServerStreams: true, ClientStreams: strings.HasSuffix(full, "/Restore")}
	st, err := conn.NewStream(ctx, desc, full)
	if err != nil {
		return status.Code(err)
	}
	if strings.HasSuffix(full, "/Backup") {
		if err := st.SendMsg(&regattapb.BackupRequest{Table: []byte("x")}); err != nil {
			return status.Code(err)
		}
		_ = st.CloseSend()
		var m regattapb.SnapshotChunk
		return status.Code(st.RecvMsg(&m))
	}
	_ = st.SendMsg(&regattapb.RestoreMessage{Data: &regattapb.RestoreMessage_Info{Info: &regattapb.RestoreInfo{Table: []byte("x")}}})
	_ = st.CloseSend()
	var m regattapb.RestoreResponse
	return status.Code(st.RecvMsg(&m))
}

// ---- certificates ----

type ca struct {
	cert *x509.Certificate
	key  *ecdsa.PrivateKey
	pem  []byte
}

func newCA(cn string, dns ...string) (*ca, error) {
	key, err := ecdsa.GenerateKey(elliptic.P256(), rand.Reader)
	if err != nil {
		return nil, err
	}
	tmpl := &x509.Certificate{SerialNumber: big.NewInt(time.Now().UnixNano()), Subject: pkix.Name{CommonName: cn}, DNSNames: dns, NotBefore: time.Now().Add(-time.Hour),
		NotAfter: time.Now().Add(24 * time.Hour), IsCA: true, KeyUsage: x509.KeyUsageCertSign | x509.KeyUsageDigitalSignature, BasicConstraintsValid: true}
	der, err := x509.CreateCertificate(rand.Reader, tmpl, tmpl, &key.PublicKey, key)
	if err != nil {
		return nil, err
	}
	cert, _ := x509.ParseCertificate(der)
	return &ca{cert, key, pem.EncodeToMemory(&pem.Block{Type: "CERTIFICATE", Bytes: der})}, nil
}

func (c *ca) issue(cn string, dns []string, server bool) (tls.Certificate, []byte, []byte, error) {
	key, err := ecdsa.GenerateKey(elliptic.P256(), rand.Reader)
	if err != nil {
		return tls.Certificate{}, nil, nil, err
	}
	eku := []x509.ExtKeyUsage{x509.ExtKeyUsageClientAuth}
	if server {
		eku = []x509.ExtKeyUsage{x509.ExtKeyUsageServerAuth}
	}
	tmpl := &x509.Certificate{SerialNumber: big.NewInt(time.Now().UnixNano()), Subject: pkix.Name{CommonName: cn}, DNSNames: dns,
		NotBefore: time.Now().Add(-time.Hour), NotAfter: time.Now().Add(24 * time.Hour), KeyUsage: x509.KeyUsageDigitalSignature, ExtKeyUsage: eku}
	if server {
		tmpl.IPAddresses = []net.IP{net.ParseIP("127.0.0.1")}
	}
	parent, pkey := tmpl, key // self-signed when there is no CA
	if c != nil {
		parent, pkey = c.cert, c.key
	}
	der, err := x509.CreateCertificate(rand.Reader, tmpl, parent, &key.PublicKey, pkey)
	if err != nil {
		return tls.Certificate{}, nil, nil, err
	}
	kb, _ := x509.MarshalECPrivateKey(key)
	cp := pem.EncodeToMemory(&pem.Block{Type: "CERTIFICATE", Bytes: der})
	kp := pem.EncodeToMemory(&pem.Block{Type: "EC PRIVATE KEY", Bytes: kb})
	tc, err := tls.X509KeyPair(cp, kp)
	return tc, cp, kp, err
}

func selfSigned(cn string) (tls.Certificate, error) {
	var none *ca
	tc, _, _, err := none.issue(cn, nil, false)
	return tc, err
}

// handshake runs a TLS handshake between a client presenting cert (nil = none) and a server with cfg.
func handshake(cfg *tls.Config, clientCert *tls.Certificate, rootCA *x509.CertPool) bool {
	l, err := tls.Listen("tcp", "127.0.0.1:0", cfg)
	if err != nil {
		return false
	}
	defer l.Close()
	done := make(chan bool, 1)
	go func() {
		c, err := l.Accept()
		if err != nil {
			done <- false
			return
		}
		defer c.Close()
		_ = c.SetDeadline(time.Now().Add(3 * time.Second))
		if err := c.(*tls.Conn).Handshake(); err != nil {
			done <- false
			return
		}
		buf := make([]byte, 1)
		_, err = c.Read(buf)
		done <- err == nil
	}()
	ccfg := &tls.Config{RootCAs: rootCA, ServerName: "127.0.0.1", NextProtos: []string{"h2"}, MinVersion: tls.VersionTLS12}
	if clientCert != nil {
		ccfg.Certificates = []tls.Certificate{*clientCert}
	}
	c, err := tls.DialWithDialer(&net.Dialer{Timeout: 3 * time.Second}, "tcp", l.Addr().String(), ccfg)
	if err != nil {
		<-done
		return false
	}
	_, _ = c.Write([]byte{1})
	ok := <-done
	_ = c.Close()
	return ok
}

func runC17(args []string) error {
	rf, err := parseFlags("c17", args, nil)
	if err != nil {
		return err
	}
	sum := &Summary{Engine: "c17", Seed: rf.Seed,
		Rule: "(a) a real API server built by cmd.createAPIServer (same interceptor chain) on a loopback listener with the Tables and Maintenance services registered with tokens as cmd/leader.go and cmd/follower.go do, and the KV service without: every method of both protected services (unary and streaming, enumerated from the generated service descriptors) x authorization header variants (none, wrong, prefix, suffix, case variant, scheme case variants, extra spaces, other scheme, the other service's token, right); observed: status code and whether any handler was reached; (b) real TLS handshakes against security.TLSInfo.ServerConfig() with certificates minted by the harness (right/wrong CA, self-signed, none; CN right/wrong/empty/prefix; SAN right/wrong) x option combinations; distinct = distinct (method or option set, credential); non-trivial = credential that differs from the right one in exactly one aspect"}
	// the host's trust store (whatever the process loads as system roots) holds a CA of its own: being in the host's
	// store is not being the configured trusted CA.  Has to be in place before anything loads the system roots.
	sysCA, err := newCA("host-store-ca")
	if err != nil {
		return err
	}
	if err := os.MkdirAll(rf.Out, 0o700); err != nil {
		return err
	}
	sysFile := filepath.Join(rf.Out, "host-roots.pem")
	if err := os.WriteFile(sysFile, sysCA.pem, 0o600); err != nil {
		return err
	}
	os.Setenv("SSL_CERT_FILE", sysFile)
	os.Setenv("SSL_CERT_DIR", filepath.Join(rf.Out, "no-such-dir"))
	tokf := &CasesFile{Requires: []string{"Model.Bytes", "Model.Obs", "Model.Auth", "Run.C17Run"}, CaseType: "tokcase", Check: "tok_check", Show: "tok_model"}
	// ---------- (a) tokens ----------
	const tablesTok, maintTok = "tables-S3cret", "maint-T0ken"
	ct := &countingTables{}
	viper.Set("api.address", "http://127.0.0.1:0")
	viper.Set("api.max-concurrent-streams", 100)
	viper.Set("api.stream-workers", -1)
	srv, err := cmd.VerifCreateAPIServer(zap.NewNop(), func(r grpc.ServiceRegistrar) {
		regattapb.RegisterKVServer(r, &regattaserver.KVServer{Storage: kvStub{}})
		regattapb.RegisterTablesServer(r, &regattaserver.TablesServer{Tables: ct, AuthFunc: cmd.VerifAuthFunc(tablesTok)})
		regattapb.RegisterMaintenanceServer(r, &maintBoth{BackupServer: regattaserver.BackupServer{Tables: ct, AuthFunc: cmd.VerifAuthFunc(maintTok)}, reset: regattaserver.ResetServer{Tables: ct, AuthFunc: cmd.VerifAuthFunc(maintTok)}})
	})
	if err != nil {
		return err
	}
	go func() { _ = srv.Serve() }()
	defer srv.Shutdown()
	conn, err := grpc.NewClient(srv.Addr().String(), grpc.WithTransportCredentials(insecure.NewCredentials()))
	if err != nil {
		return err
	}
	defer conn.Close()
	type method struct {
		full      string
		streaming bool
		token     string
	}
	var methods []method
	for _, m := range regattapb.Tables_ServiceDesc.Methods {
		methods = append(methods, method{"/" + regattapb.Tables_ServiceDesc.ServiceName + "/" + m.MethodName, false, tablesTok})
	}
	for _, m := range regattapb.Maintenance_ServiceDesc.Methods {
		methods = append(methods, method{"/" + regattapb.Maintenance_ServiceDesc.ServiceName + "/" + m.MethodName, false, maintTok})
	}
	for _, m := range regattapb.Maintenance_ServiceDesc.Streams {
		methods = append(methods, method{"/" + regattapb.Maintenance_ServiceDesc.ServiceName + "/" + m.StreamName, true, maintTok})
	}
	hm := sum.hist("methods")
	runMethods := func(conn *grpc.ClientConn, methods []method, flavour string) {
		for _, m := range methods {
			other := maintTok
			if m.token == maintTok {
				other = tablesTok
			}
			type hv struct {
				h     *string
				right bool
				what  string
			}
			s := func(x string) *string { return &x }
			variants := []hv{{nil, false, "none"}, {s(""), false, "empty"}, {s("Bearer " + m.token), true, "right"}, {s("bearer " + m.token), true, "right-lower-scheme"},
				{s("BEARER " + m.token), true, "right-upper-scheme"}, {s("Bearer " + m.token[:len(m.token)-1]), false, "prefix"}, {s("Bearer " + m.token + "x"), false, "suffix"},
				{s("Bearer " + strings.ToUpper(m.token)), false, "upper"}, {s("Bearer " + strings.ToLower(m.token)), false, "lower"}, {s("Bearer  " + m.token), false, "two-spaces"},
				{s("Bearer " + m.token + " "), false, "trailing-space"}, {s("Basic " + m.token), false, "other-scheme"}, {s(m.token), false, "no-scheme"},
				{s("Bearer " + other), false, "other-service-token"}, {s("Bearer"), false, "scheme-only"}}
			for _, v := range variants {
				before := ct.calls.Load()
				code := callMethod(conn, m.full, m.streaming, v.h)
				reached := ct.calls.Load() != before
				passed := code != codes.Unauthenticated
				hm.Inc(m.full)
				sum.Evaluations++
				if !v.right {
					sum.DistinctNontrivial++
				}
				in := map[string]any{"method": m.full, "header": v.what, "server": flavour}
				if !v.right && (passed || reached) {
					sum.violate(sum.Evaluations, "a protected method was reached without the right bearer token", in, fmt.Sprint(code, reached))
				}
				if v.right && !passed {
					sum.violate(sum.Evaluations, "a protected method refused the right bearer token", in, fmt.Sprint(code))
				}
				hdr := "None"
				if v.h != nil {
					hdr = "(Some " + cBytes([]byte(*v.h)) + ")"
					if *v.h == "" {
						hdr = "(Some [])"
					}
				}
				tokf.Add(fmt.Sprintf("{| k_token := %s; k_override := true; k_header := %s; k_impl := %s |}", cBytes([]byte(m.token)), hdr, oBool(passed)), fmt.Sprint(in))
			}
		}
	}
	runMethods(conn, methods, "leader")
	// the follower registers the read-only flavour of the Tables service (cmd/follower.go): same token, same rule
	fsrv, err := cmd.VerifCreateAPIServer(zap.NewNop(), func(r grpc.ServiceRegistrar) {
		regattapb.RegisterTablesServer(r, &regattaserver.ReadonlyTablesServer{TablesServer: regattaserver.TablesServer{Tables: ct, AuthFunc: cmd.VerifAuthFunc(tablesTok)}})
	})
	if err != nil {
		return err
	}
	go func() { _ = fsrv.Serve() }()
	defer fsrv.Shutdown()
	fconn, err := grpc.NewClient(fsrv.Addr().String(), grpc.WithTransportCredentials(insecure.NewCredentials()))
	if err != nil {
		return err
	}
	defer fconn.Close()
	var tmethods []method
	for _, m := range methods {
		if m.token == tablesTok {
			tmethods = append(tmethods, m)
		}
	}
	runMethods(fconn, tmethods, "follower")
	// other services are unaffected
	for _, h := range []*string{nil, func() *string { x := "Bearer nonsense"; return &x }()} {
		code := callMethod(conn, "/regatta.v1.KV/Range", false, h)
		sum.Evaluations++
		if code == codes.Unauthenticated {
			sum.violate(sum.Evaluations, "an unprotected service demanded a token", map[string]any{"method": "/regatta.v1.KV/Range"}, nil)
		}
		hdr := "None"
		if h != nil {
			hdr = "(Some " + cBytes([]byte(*h)) + ")"
		}
		tokf.Add(fmt.Sprintf("{| k_token := []; k_override := false; k_header := %s; k_impl := %s |}", hdr, oBool(code != codes.Unauthenticated)), "KV/Range")
	}
	tnames, err := tokf.Write(rf.Out, "c17_tokens", 300)
	if err != nil {
		return err
	}
	// ---------- (b) TLS ----------
	tlsf := &CasesFile{Requires: []string{"Model.Bytes", "Model.Obs", "Model.Auth", "Run.C17Run"}, CaseType: "tlscase", Check: "tls_check", Show: "tls_model"}
	dir := filepath.Join(rf.Out, "certs")
	if err := os.MkdirAll(dir, 0o700); err != nil {
		return err
	}
	// the trusted CA itself carries the allowed common name and hostname: only the LEAF certificate counts
	good, err := newCA("client", "client.local")
	if err != nil {
		return err
	}
	evil, err := newCA("evil-ca")
	if err != nil {
		return err
	}
	_, scp, skp, err := good.issue("server", nil, true)
	if err != nil {
		return err
	}
	write := func(name string, b []byte) string {
		p := filepath.Join(dir, name)
		_ = os.WriteFile(p, b, 0o600)
		return p
	}
	certFile, keyFile, caFile := write("server.crt", scp), write("server.key", skp), write("ca.crt", good.pem)
	roots := x509.NewCertPool()
	roots.AddCert(good.cert)
	type cl struct {
		name      string
		cert      *tls.Certificate
		presented bool
		chains    bool
		cn        string
		hostOK    bool
	}
	mkc := func(c *ca, cn string, dns []string) *tls.Certificate {
		tc, _, _, err := c.issue(cn, dns, false)
		if err != nil {
			panic(err)
		}
		return &tc
	}
	ss, err := selfSigned("client")
	if err != nil {
		return err
	}
	clients := []cl{
		{"none", nil, false, false, "", false},
		{"good-ca CN=client SAN=client.local", mkc(good, "client", []string{"client.local"}), true, true, "client", true},
		{"good-ca CN=Client (case)", mkc(good, "Client", nil), true, true, "Client", false},
		{"good-ca CN=clien (prefix)", mkc(good, "clien", nil), true, true, "clien", false},
		{"good-ca CN=clientx (suffix)", mkc(good, "clientx", []string{"clientx.local"}), true, true, "clientx", false},
		{"good-ca CN= (empty) SAN=client.local", mkc(good, "", []string{"client.local"}), true, true, "", true},
		{"good-ca CN=client SAN=other.local", mkc(good, "client", []string{"other.local"}), true, true, "client", false},
		{"good-ca CN=client.local (the allowed hostname as CN) SAN=other.local", mkc(good, "client.local", []string{"other.local"}), true, true, "client.local", false},
		{"good-ca CN=client.local (the allowed hostname as CN) no SAN", mkc(good, "client.local", nil), true, true, "client.local", false},
		{"good-ca CN=CLIENT.LOCAL SAN=other.local", mkc(good, "CLIENT.LOCAL", []string{"other.local"}), true, true, "CLIENT.LOCAL", false},
		{"evil-ca CN=client SAN=client.local", mkc(evil, "client", []string{"client.local"}), true, false, "client", true},
		{"self-signed CN=client", &ss, true, false, "client", false},
		{"host-trust-store CA (not the configured one) CN=client SAN=client.local", mkc(sysCA, "client", []string{"client.local"}), true, false, "client", true},
	}
	ht := sum.hist("tls_options")
	for _, ca := range []bool{false, true} {
		for _, cca := range []bool{false, true} {
			for _, cn := range []string{"", "client"} {
				for _, hn := range []string{"", "client.local"} {
					ti := security.TLSInfo{CertFile: certFile, KeyFile: keyFile, ClientCertAuth: cca, AllowedCN: cn, AllowedHostname: hn}
					if ca {
						ti.TrustedCAFile = caFile
					}
					cfg, cerr := ti.ServerConfig()
					opts := fmt.Sprintf("{| o_trusted_ca := %s; o_client_cert_auth := %s; o_allowed_cn := %s; o_allowed_hostname := %s |}", cBool(ca), cBool(cca), cBytes([]byte(cn)), cBytes([]byte(hn)))
					ht.Inc(fmt.Sprintf("ca=%v cca=%v cn=%q host=%q", ca, cca, cn, hn))
					for _, c := range clients {
						in := map[string]any{"trusted_ca": ca, "client_cert_auth": cca, "allowed_cn": cn, "allowed_hostname": hn, "client": c.name}
						impl := oN(-1)
						if cerr == nil {
							ok := handshake(cfg, c.cert, roots)
							impl = oBool(ok)
							// the property: with a trusted CA and an allowed CN / hostname only the right certificate is accepted
							if ca && ok {
								if !c.presented || !c.chains {
									sum.violate(sum.Evaluations, "a connection without a certificate chaining to the trusted CA was accepted", in, nil)
								}
								if cn != "" && c.cn != cn {
									sum.violate(sum.Evaluations, "a client certificate with a different common name was accepted", in, nil)
								}
								if hn != "" && !c.hostOK {
									sum.violate(sum.Evaluations, "a client certificate not valid for the allowed hostname was accepted", in, nil)
								}
							}
							if ca && !ok && c.presented && c.chains && (cn == "" || c.cn == cn) && (hn == "" || c.hostOK) {
								sum.violate(sum.Evaluations, "the right client certificate was refused", in, nil)
							}
						} else if !(cn != "" && hn != "") {
							return fmt.Errorf("ServerConfig: %w", cerr)
						}
						// in RequireAndVerify mode without a CA file the chains cannot verify
						chains := c.chains && ca
						if strings.HasPrefix(c.name, "host-trust-store") && !ca && cfg != nil && cfg.ClientAuth == tls.RequireAndVerifyClientCert {
							// client certificates are demanded but no CA is configured: crypto/tls then verifies against the
							// host's trust store (outside the property's hypothesis 'configured with a trusted CA')
							chains = true
						}
						hostOK := c.hostOK && hn == "client.local"
						tlsf.Add(fmt.Sprintf("{| s_opts := %s; s_presented := %s; s_chains := %s; s_cn := %s; s_host_ok := %s; s_impl := %s |}", opts, cBool(c.presented), cBool(chains), cBytes([]byte(c.cn)), cBool(hostOK), impl), fmt.Sprint(in))
						sum.Evaluations++
						if c.presented {
							sum.DistinctNontrivial++
						}
					}
				}
			}
		}
	}
	// ---------- (c) the endpoint as cmd wires it: every TLS scheme of the address really speaks TLS ----------
	for ei, address := range []string{"https://127.0.0.1:0", "unixs://" + filepath.Join(rf.Out, "api.sock")} {
		viper.Set("api.address", address)
		viper.Set("api.cert-filename", certFile)
		viper.Set("api.key-filename", keyFile)
		viper.Set("api.ca-filename", caFile)
		viper.Set("api.allowed-cn", "client")
		esrv, err := cmd.VerifCreateAPIServer(zap.NewNop(), func(r grpc.ServiceRegistrar) {
			regattapb.RegisterKVServer(r, &regattaserver.KVServer{Storage: kvStub{}})
		})
		if err != nil {
			return fmt.Errorf("endpoint %s: %w", address, err)
		}
		go func() { _ = esrv.Serve() }()
		target := esrv.Addr().String()
		if ei == 1 {
			target = "unix://" + filepath.Join(rf.Out, "api.sock")
		}
		in := map[string]any{"api.address": address, "api.ca-filename": "set", "api.allowed-cn": "client"}
		// a client that speaks plaintext (hence presents no certificate)
		pc, err := grpc.NewClient(target, grpc.WithTransportCredentials(insecure.NewCredentials()))
		if err != nil {
			return err
		}
		code := callMethod(pc, "/regatta.v1.KV/Range", false, nil)
		_ = pc.Close()
		sum.Evaluations++
		sum.hist("tls_options").Inc("endpoint scheme " + strings.SplitN(address, ":", 2)[0])
		if code == codes.OK {
			sum.violate(sum.Evaluations, "a connection without a certificate chaining to the trusted CA was accepted", in, "a plaintext client (no TLS, no certificate) was served by an endpoint configured with a trusted CA")
		}
		// the right client is served
		good := mkc(good, "client", []string{"client.local"})
		tc, err := grpc.NewClient(target, grpc.WithTransportCredentials(credentials.NewTLS(&tls.Config{Certificates: []tls.Certificate{*good}, RootCAs: roots, ServerName: "127.0.0.1"})))
		if err != nil {
			return err
		}
		code = callMethod(tc, "/regatta.v1.KV/Range", false, nil)
		_ = tc.Close()
		if code != codes.OK {
			sum.violate(sum.Evaluations, "the right client certificate was refused", in, fmt.Sprint(code))
		}
		esrv.Shutdown()
	}
	sum.Samples = append(sum.Samples, tokf.Descr[5], tlsf.Descr[20], tlsf.Descr[len(tlsf.Descr)-3])
	lnames, err := tlsf.Write(rf.Out, "c17_tls", 300)
	if err != nil {
		return err
	}
	sum.CasesFiles = append(tnames, lnames...)
	// ---------- (d) address schemes as cmd.resolveURL reads them ----------
	{
		uf := &CasesFile{Requires: []string{"Model.Bytes", "Model.Obs", "Model.Auth", "Model.Validate", "Run.C17Run"}, CaseType: "urlcase", Check: "url_check", Show: "url_model"}
		for _, u := range []struct{ url, sch string }{
			{"http://127.0.0.1:8443", "SchHttp"}, {"https://127.0.0.1:8443", "SchHttps"}, {"https://[::1]:443", "SchHttps"},
			{"unix:///var/run/regatta.sock", "SchUnix"}, {"unixs:///var/run/regatta.sock", "SchUnixs"}, {"unixs://rel/path.sock", "SchUnixs"},
			{"tcp://127.0.0.1:1", "SchOther"}, {"HTTPS://127.0.0.1:1", "SchHttps"}, {"ftp://x", "SchOther"},
		} {
			_, sec, nw := cmd.VerifResolveURL(u.url)
			uf.Add(fmt.Sprintf("{| u_scheme := %s; u_impl := %s |}", u.sch, oL(oBool(sec), oBool(nw == "unix"))), u.url)
			sum.Evaluations++
		}
		unames, err := uf.Write(rf.Out, "c17_urls", 50)
		if err != nil {
			return err
		}
		sum.CasesFiles = append(sum.CasesFiles, unames...)
	}
	return sum.write(rf.Out, "c17")
}

// maintBoth serves the whole Maintenance service the way leader (Backup/Restore) and follower (Reset) do together;
// the auth override of both is the same function.
type maintBoth struct {
	regattaserver.BackupServer
	reset regattaserver.ResetServer
}

func (m *maintBoth) Reset(ctx context.Context, req *regattapb.ResetRequest) (*regattapb.ResetResponse, error) {
	return m.reset.Reset(ctx, req)
}
