package main

import (
	"encoding/json"
	"errors"
	"fmt"
	"strings"
	"time"

	serrors "github.com/jamf/regatta/storage/errors"
	"github.com/jamf/regatta/storage/kv"
	"github.com/jamf/regatta/storage/table"
)

func init() { register("c15", runC15) }

type leaseCall struct {
	lease   bool // false: ReturnTable
	expired bool // lease duration already over
	// delTable: not a lease call at all - the node deletes (and creates again) the TABLE, as reconciliation does when the
	// leader dropped and re-created it; the lease record is none of its business.  No model action: the lease protocol
	// has no such step.
	delTable bool
}

// enumerate all interleavings of per-actor operation counts is not possible up front (a call has one or two
// store operations depending on its decision), so schedules are explored by a seeded walk; for two actors with one
// call each all interleavings are enumerated by bounded DFS over choice sequences.
func runLeaseSchedule(scripts map[int][]leaseCall, choose func(parked []int, step int) int, batch func(step int) bool) (acts []string, results []string, holdersOK bool, trace []string, finalHolder string, err error) {
	store := newSchedStore()
	var actors []int
	for a := range scripts {
		actors = append(actors, a)
	}
	sortInts(actors)
	sch := newScheduler(store, actors)
	mgr := map[int]*table.Manager{}
	for _, a := range actors {
		cfg := table.Config{NodeID: uint64(a), Table: table.TableConfig{BlockCacheSize: 1024, TableCacheSize: 1024}}
		mgr[a] = table.NewManager(nil, nil, sch.gates[a], cfg)
	}
	callIdx := map[int]int{}
	for _, a := range actors {
		a := a
		sch.start(a, func(done func(string)) {
			for _, c := range scripts[a] {
				if c.delTable {
					_ = mgr[a].DeleteTable("tab")
					_, _ = mgr[a].VerifCreateTable("tab")
					done("table-recreated")
					continue
				}
				if c.lease {
					d := time.Hour
					if c.expired {
						d = -time.Hour
					}
					e := mgr[a].LeaseTable("tab", d)
					switch {
					case e == nil:
						done("acquired")
					case errors.Is(e, serrors.ErrLeaseNotAcquired):
						done("refused")
					default:
						done("failed")
					}
				} else {
					ok, e := mgr[a].ReturnTable("tab")
					if e != nil {
						done("failed")
					} else {
						done(fmt.Sprintf("returned-%v", ok))
					}
				}
			}
		})
	}
	holders := map[int]bool{} // ghost: unexpired, unreturned successful leases
	recordOf := 0             // ghost: the node whose lease is in the store's record (0: none)
	foreignReturn := ""
	holdersOK = true
	pendingKind := map[int]leaseCall{}
	onDone := func(actor int, result string) {
		results = append(results, result)
		trace = append(trace, fmt.Sprintf("n%d:%s", actor, result))
		c := pendingKind[actor]
		switch result {
		case "acquired":
			if !c.expired {
				holders[actor] = true
			} else {
				delete(holders, actor)
			}
		case "returned-true":
			delete(holders, actor)
			// returning a lease only ever removes the caller's own lease
			if recordOf != actor {
				foreignReturn = fmt.Sprintf("node %d's ReturnTable removed the lease record written by node %d", actor, recordOf)
			}
			recordOf = 0
		}
		if result == "acquired" {
			recordOf = actor
		}
		if len(holders) > 1 {
			holdersOK = false
		}
		callIdx[actor]++
	}
	step := 0
	for {
		sch.settle(onDone)
		parked := sch.parked()
		if len(parked) == 0 {
			break
		}
		a := parked[choose(parked, step)%len(parked)]
		step++
		ev := sch.waiting[a]
		c := scripts[a][callIdx[a]]
		pendingKind[a] = c
		if c.delTable {
			trace = append(trace, fmt.Sprintf("n%d.table-%s", a, ev.op))
			sch.release(a)
			continue
		}
		switch ev.op {
		case "get":
			if c.lease {
				acts = append(acts, fmt.Sprintf("ALease %d%%nat 3600 %s", a, cBool(c.expired)))
			} else {
				acts = append(acts, fmt.Sprintf("AReturn %d%%nat", a))
			}
		case "set", "delete":
			acts = append(acts, fmt.Sprintf("AApply %d%%nat", a))
		default:
			return nil, nil, false, nil, "", fmt.Errorf("unexpected store operation %s", ev.op)
		}
		trace = append(trace, fmt.Sprintf("n%d.%s", a, ev.op))
		// two writes that are both waiting may be committed together and reach the state machine in one Update call
		other := -1
		if (ev.op == "set" || ev.op == "delete") && batch != nil && batch(step) {
			for _, b := range parked {
				if o := sch.waiting[b].op; b != a && (o == "set" || o == "delete") {
					other = b
					break
				}
			}
		}
		if other < 0 {
			sch.release(a)
			continue
		}
		store.beginBatch(2)
		sch.release(a)
		<-store.enq
		pendingKind[other] = scripts[other][callIdx[other]]
		acts = append(acts, fmt.Sprintf("AApply %d%%nat", other))
		trace = append(trace, fmt.Sprintf("n%d.%s[same-batch]", other, sch.waiting[other].op))
		sch.release(other)
		<-store.enq
		// both are applied; the callers continue in batch order
		store.deliver(0)
		sch.running-- // the second proposer is still inside the store
		sch.settle(onDone)
		sch.running++
		store.deliver(1)
	}
	// who does the store say holds the lease
	finalHolder = "none"
	if p, err := store.lookup(kv.QueryKey{Key: "/tables/tab/lease"}); err == nil {
		var l table.Lease
		if json.Unmarshal([]byte(p.(kv.Pair).Value), &l) == nil {
			finalHolder = fmt.Sprint(l.ID)
		}
	}
	lastForeignReturn = foreignReturn
	return acts, results, holdersOK, trace, finalHolder, nil
}

// lastForeignReturn: set by runLeaseSchedule when a ReturnTable removed another node's lease record.
var lastForeignReturn string

func runC15(args []string) error {
	rf, err := parseFlags("c15", args, nil)
	if err != nil {
		return err
	}
	r := rf.rng()
	sum := &Summary{Engine: "c15", Seed: rf.Seed,
		Rule: "real table.Manager.LeaseTable/ReturnTable for 2-3 managers (node ids) over one metadata store with the real kv.LFSM compare-and-set semantics, every store operation released by a scheduler (two waiting writes optionally committed together, i.e. applied by ONE LFSM.Update call): ALL interleavings of two calls (lease/lease, lease/return, with long and already-expired durations; also after a lease that was taken and returned, so that a record re-appears under the same key) enumerated, plus seeded random schedules of 2-3 nodes x 1-4 calls; oracle: at no point two nodes with a granted, unreturned, unexpired lease, and a successful return only by the node whose lease is in the record (calls that delete and re-create the TABLE are mixed in: the lease is none of their business); observed: every call's outcome in completion order and the final holder; plus real replication workers (lease routine) of 2-3 nodes over a metadata shard with per-node replicas, competing and with the holder cut off: never two workers with the leased flag set; distinct = distinct (scripts, schedule); non-trivial = both nodes' operations interleave inside a call"}
	cf := &CasesFile{Requires: []string{"Model.Bytes", "Model.Obs", "Model.Lease", "Run.C15Run"}, CaseType: "c15case", Check: "c15_check", Show: "c15_model"}
	hk := sum.hist("schedules")
	seen := map[string]bool{}
	record := func(scripts map[int][]leaseCall, choose func([]int, int) int, batch func(int) bool, kind string) error {
		acts, results, ok, trace, final, err := runLeaseSchedule(scripts, choose, batch)
		if err != nil {
			return err
		}
		var rs []string
		for _, x := range results {
			switch x {
			case "acquired":
				rs = append(rs, oN(1))
			case "refused":
				rs = append(rs, oN(2))
			case "failed":
				rs = append(rs, oN(3))
			case "returned-true":
				rs = append(rs, oL(oBool(true)))
			case "returned-false":
				rs = append(rs, oL(oBool(false)))
			}
		}
		fin := oL()
		if final != "none" {
			var id int64
			fmt.Sscan(final, &id)
			fin = oL(oN(id))
		}
		d := strings.Join(trace, " ")
		if seen[d] {
			return nil
		}
		seen[d] = true
		cf.Add(fmt.Sprintf("{| a_acts := %s; a_impl := %s |}", cList(acts), oL(oLs(rs), fin)), d)
		hk.Inc(kind)
		sum.Evaluations++
		interleaved := false
		last := ""
		switches := 0
		for _, t := range trace {
			if strings.Contains(t, ".") {
				n := strings.SplitN(t, ".", 2)[0]
				if last != "" && n != last {
					switches++
				}
				last = n
			}
		}
		if switches >= 2 {
			interleaved = true
			sum.DistinctNontrivial++
		}
		if len(sum.Samples) < 4 && interleaved {
			sum.Samples = append(sum.Samples, d)
		}
		if !ok {
			sum.violate(sum.Evaluations, "two nodes hold an unexpired replication lease at the same time", map[string]any{"schedule": d}, nil)
		}
		if lastForeignReturn != "" {
			sum.violate(sum.Evaluations, "returning a lease removed another node's lease", map[string]any{"schedule": d}, lastForeignReturn)
		}
		return nil
	}
	// exhaustive: two nodes, one or two calls each, every choice sequence of length <= 8 over 2 parked actors
	calls := []leaseCall{{lease: true}, {lease: true, expired: true}, {lease: false}}
	for _, c1 := range calls {
		for _, c2 := range calls {
			for _, pre := range [][]leaseCall{nil, {{lease: true}}, {{lease: true, expired: true}}, {{lease: true}, {lease: false}}, {{lease: true, expired: true}, {lease: false}}} {
				for bits := 0; bits < 64; bits++ {
					b := bits
					s1 := append(append([]leaseCall{}, pre...), c1)
					scripts := map[int][]leaseCall{1: s1, 2: {c2}}
					if err := record(scripts, func(parked []int, step int) int { return (b >> uint(step%6)) & 1 }, nil, "exhaustive-2-nodes"); err != nil {
						return err
					}
					if err := record(scripts, func(parked []int, step int) int { return (b >> uint(step%6)) & 1 }, func(int) bool { return true }, "exhaustive-2-nodes, waiting writes applied in one batch"); err != nil {
						return err
					}
				}
			}
		}
	}
	n := rf.count(150, 4000)
	for i := 0; i < n; i++ {
		scripts := map[int][]leaseCall{}
		for a := 1; a <= 2+r.Intn(2); a++ {
			var cs []leaseCall
			for j := 0; j < 1+r.Intn(4); j++ {
				if r.Intn(8) == 0 {
					cs = append(cs, leaseCall{delTable: true})
					continue
				}
				cs = append(cs, leaseCall{lease: r.Intn(4) != 0, expired: r.Intn(3) == 0})
			}
			scripts[a] = cs
		}
		var batch func(int) bool
		kind := "random"
		if i%2 == 1 {
			batch = func(int) bool { return r.Intn(2) == 0 }
			kind = "random, some waiting writes applied in one batch"
		}
		if err := record(scripts, func(parked []int, step int) int { return r.Intn(len(parked)) }, batch, kind); err != nil {
			return err
		}
	}
	if err := runC15Workers(sum); err != nil {
		return err
	}
	names, err := cf.Write(rf.Out, "c15_cases", 200)
	if err != nil {
		return err
	}
	if len(sum.Samples) == 0 {
		sum.Samples = append(sum.Samples, cf.Descr[0])
	}
	sum.CasesFiles = names
	return sum.write(rf.Out, "c15")
}
